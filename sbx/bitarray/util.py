"""Model of the bitarray.util functions that bitstring calls.  Little-endian bitarrays (item 0 = least significant bit of a byte /
of an integer / of a digit) are supported for the conversions in this module; the result of int2ba/base2ba/zeros/ones is big-endian
unless endian='little' is asked for."""
from __future__ import annotations

from . import _core as C
from ._core import NoTracing
from . import bitarray, frozenbitarray, _conc, _index  # noqa: F401

_WS = ' \t\n\r\v\f'


def int2ba(i, /, length=None, endian=None, signed=False):
    if not isinstance(i, int):
        raise TypeError(f"'{type(i).__name__}' object cannot be interpreted as an integer")
    if endian not in (None, 'big', 'little'):
        raise ValueError(f"bit-endianness must be either 'little' or 'big', not '{endian}'")
    le = endian == 'little'
    if length is None:
        if signed:
            raise TypeError("signed requires argument 'length'")
        i = _conc(i)
        if i < 0:
            raise OverflowError("unsigned integer not positive, got %d" % i)
        n = max(i.bit_length(), 1)
        return bitarray._mk(n, C.reverse(i, n) if le else i, le)
    if not isinstance(length, int):
        raise TypeError("integer expected for argument 'length'")
    n = _conc(length)
    if n <= 0:
        raise ValueError("length must be > 0")
    if signed:
        lo, hi = -(1 << (n - 1)), 1 << (n - 1)
        if i < lo or i >= hi:
            raise OverflowError(f"signed integer not in range({lo}, {hi})")
    else:
        if i < 0 or i >= (1 << n):
            raise OverflowError(f"unsigned integer not in range(0, {1 << n})")
    with NoTracing():
        v = C.from_int(C.ival(i), n, bool(signed))
        return bitarray._mk(n, C.reverse(v, n) if le else v, le)


def ba2int(a, /, signed=False):
    if not isinstance(a, bitarray):
        raise TypeError(f"bitarray expected, not '{type(a).__name__}'")
    if a._n == 0:
        raise ValueError("non-empty bitarray expected")
    with NoTracing():
        v = C.reverse(a._v, a._n) if a._le else a._v       # little-endian: item 0 is the least significant bit
        r = C.to_sint(v, a._n) if signed else C.to_uint(v, a._n)
        return C.wrap_int(r)


_DIGITS = '0123456789abcdefghijklmnopqrstuvwxyz'


def _digit_value_symbolic(o, base):
    """o: code point (python int or symbolic int, traced). Returns digit value or raises ValueError."""
    if 48 <= o <= 57:
        d = o - 48
    elif 97 <= o <= 102:
        d = o - 87
    elif 65 <= o <= 70:
        d = o - 55
    else:
        raise ValueError(f"invalid digit found for base{base}")
    if d >= base:
        raise ValueError(f"invalid digit found for base{base}")
    return d


def base2ba(n, s, /, endian=None):
    if n not in (2, 4, 8, 16, 32, 64):
        raise ValueError("base must be 2, 4, 8, 16, 32 or 64")
    if n > 16:
        raise NotImplementedError("sbx model: base 32/64 are not modelled")
    if endian == 'little':
        raise NotImplementedError("sbx model: base2ba/hex2ba with endian='little' is not modelled")
    if isinstance(s, (bytes, bytearray)):
        s = s.decode('latin-1')
    elif not isinstance(s, str):
        raise TypeError(f"str, bytes or bytearray expected, got '{type(s).__name__}'")
    w = n.bit_length() - 1
    with NoTracing():
        symbolic = C.HAVE_CH and isinstance(s, C.AnySymbolicStr)
    if not symbolic:
        v = cnt = 0
        for ch in s:
            if ch in _WS:
                continue
            d = _DIGITS.find(ch.lower()) if ch.isascii() else -1
            if d < 0 or d >= n:
                raise ValueError(f"invalid digit found for base{n}, got '{ch}' ({hex(ord(ch))})")
            v = (v << w) | d
            cnt += 1
        return bitarray._mk(cnt * w, v)
    parts = []
    for k in range(len(s)):
        o = ord(s[k])
        if o == 32 or (9 <= o <= 13):
            continue
        d = _digit_value_symbolic(o, n)
        with NoTracing():
            dz = C.ival(d)
            parts.append((w, dz if C.is_conc(dz) else C.z3.Int2BV(dz, w)))
    with NoTracing():
        nn, v = C.cat(parts)
    return bitarray._mk(nn, v)


def hex2ba(s, /, endian=None):
    return base2ba(16, s, endian)


def ba2base(n, a, /, group=0, sep=' '):
    if n not in (2, 4, 8, 16, 32, 64):
        raise ValueError("base must be 2, 4, 8, 16, 32 or 64")
    if n > 16:
        raise NotImplementedError("sbx model: base 32/64 are not modelled")
    if not isinstance(a, bitarray):
        raise TypeError(f"bitarray expected, not '{type(a).__name__}'")
    w = n.bit_length() - 1
    if a._n % w:
        raise ValueError(f"bitarray length {a._n} not multiple of {w}")
    k = a._n // w
    with NoTracing():
        av = a._v
        if a._le and a._n:
            # little-endian: the bits of every digit are in the opposite order
            av = C.cat([(w, C.reverse(C.take(a._v, a._n, w * j, w), w)) for j in range(k)])[1]
        if not C.is_bv(av):
            return ''.join(_DIGITS[(av >> (w * (k - 1 - j))) & (n - 1)] for j in range(k))
        z3 = C.z3
        cps = []
        for j in range(k):
            d = z3.BV2Int(z3.Extract(a._n - 1 - w * j, a._n - w - w * j, av))
            cps.append(C.SymbolicInt(z3.If(d < 10, d + 48, d + 87)))
        return C.LazyIntSymbolicStr(cps)


def ba2hex(a, /, group=0, sep=' '):
    return ba2base(16, a)


def zeros(n, endian=None):
    return bitarray._mk(_conc(n), 0, endian == 'little')


def ones(n, endian=None):
    n = _conc(n)
    return bitarray._mk(n, C.mask(n), endian == 'little')
