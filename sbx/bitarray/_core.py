"""Bit-vector kernel of the bitarray model.

A store value is either a Python int (concrete, 0 <= v < 2**n) or a z3 BitVecRef
of width n (symbolic, only ever created while a CrossHair StateSpace is active).
Bit i (msb0 numbering, as bitarray with endian='big') is z3 bit n-1-i, so the
unsigned value of the vector equals util.ba2int(a).

Everything in this file runs with CrossHair tracing switched off; indices may be
Python ints or CrossHair SymbolicInt (unwrapped to z3 Int terms here).  Nothing
in here ever realises (concretises) a symbolic value.
"""
from __future__ import annotations

try:  # the model also has to work in an interpreter without crosshair (replay, differential validation)
    import z3
    from crosshair.tracers import NoTracing, ResumedTracing, is_tracing
    from crosshair.statespace import optional_context_statespace, context_statespace
    from crosshair.libimpl.builtinslib import (SymbolicInt, SymbolicBool, SymbolicBytes,
                                               LazyIntSymbolicStr, BytesLike, AnySymbolicStr)
    from crosshair.core import realize, deep_realize
    HAVE_CH = True
except ImportError:  # pragma: no cover
    HAVE_CH = False
    z3 = None

    class _Null:
        def __enter__(self):
            return self

        def __exit__(self, *a):
            return False

    def NoTracing():
        return _Null()

    def ResumedTracing():
        return _Null()

    def is_tracing():
        return False

    def optional_context_statespace():
        return None

    def realize(x):
        return x

    def deep_realize(x):
        return x

    class SymbolicInt:  # never instantiated
        pass

    class SymbolicBool:
        pass

    class SymbolicBytes:
        pass

    class BytesLike:
        pass

    class AnySymbolicStr:
        pass


def symbolic_active() -> bool:
    return HAVE_CH and optional_context_statespace() is not None


def is_bv(v) -> bool:
    return HAVE_CH and isinstance(v, z3.BitVecRef)


def is_symint(x) -> bool:
    """Must be called with tracing off."""
    return HAVE_CH and isinstance(x, (SymbolicInt, SymbolicBool))


def ival(x):
    """z3 Int term (or python int) for an int-like that may be a SymbolicInt. Tracing off."""
    if HAVE_CH:
        if isinstance(x, SymbolicInt):
            return x.var
        if isinstance(x, SymbolicBool):
            return z3.If(x.var, z3.IntVal(1), z3.IntVal(0))
    return x


def is_conc(x) -> bool:
    return isinstance(x, int)


def mask(n: int) -> int:
    return (1 << n) - 1


def bv(v, n: int):
    """Promote to a z3 bit-vector of width n (n >= 1)."""
    if is_bv(v):
        return v
    return z3.BitVecVal(v, n)


def simp(e):
    return z3.simplify(e) if False else e


def wrap_int(e):
    """Python-level int for a z3 Int term / python int."""
    if isinstance(e, int):
        return e
    return SymbolicInt(e)


def wrap_bool(e):
    if isinstance(e, bool):
        return e
    if z3.is_true(e):
        return True
    if z3.is_false(e):
        return False
    return SymbolicBool(e)


def _amount(e, w: int):
    """shift amount as a width-w vector; e is a python int or z3 Int term known to lie in [0, w]."""
    if isinstance(e, int):
        return z3.BitVecVal(e, w)
    return z3.Int2BV(e, w)


# ---------------------------------------------------------------- selection

def select(v, n: int, i):
    """bit i (0 <= i < n guaranteed by caller) -> python int 0/1 or z3 Int term."""
    if is_conc(i):
        if not is_bv(v):
            return (v >> (n - 1 - i)) & 1
        return z3.BV2Int(z3.Extract(n - 1 - i, n - 1 - i, v))
    vv = bv(v, n)
    return z3.BV2Int(select_bit(vv, n, i))


def select_bit(vv, n: int, i):
    """1-bit vector for bit i of the width-n vector vv (i python int or z3 Int term)."""
    if is_conc(i):
        return z3.Extract(n - 1 - i, n - 1 - i, vv)
    return z3.Extract(0, 0, z3.LShR(vv, _amount(n - 1 - i, n)))


def take(v, n: int, start, L: int):
    """bits [start, start+L); caller guarantees 0 <= start and start+L <= n; L concrete."""
    if L == 0:
        return 0
    if is_conc(start):
        if not is_bv(v):
            return (v >> (n - start - L)) & mask(L)
        if L == n:
            return v
        # structural simplification (Extract of Concat etc.) keeps downstream Int<->BV terms recognisable for z3
        return z3.simplify(z3.Extract(n - 1 - start, n - start - L, v))
    vv = bv(v, n)
    if L == n:
        return vv
    return z3.Extract(n - 1, n - L, vv << _amount(start, n))


def gather(v, n: int, start, step, L: int):
    """bits start, start+step, ... (L of them, all in range)."""
    if L == 0:
        return 0
    if is_conc(start) and is_conc(step) and not is_bv(v):
        r = 0
        for j in range(L):
            r = (r << 1) | ((v >> (n - 1 - (start + j * step))) & 1)
        return r
    vv = bv(v, n)
    bits = [select_bit(vv, n, start + j * step) for j in range(L)]
    return bits[0] if L == 1 else z3.Concat(*bits)


def cat(parts):
    """parts: list of (n_i, v_i); returns (n, v)."""
    parts = [(n, v) for (n, v) in parts if n > 0]
    if not parts:
        return 0, 0
    if len(parts) == 1:
        return parts[0]
    total = sum(n for n, _ in parts)
    if not any(is_bv(v) for _, v in parts):
        r = 0
        for n, v in parts:
            r = (r << n) | v
        return total, r
    # structural simplification merges adjacent extracts of one vector (byte reversal round trips) back into the vector
    return total, z3.simplify(z3.Concat(*[bv(v, n) for n, v in parts]))


def splice(v, n: int, start, D: int, val, m: int):
    """replace bits [start, start+D) by the m-bit value val; returns (new_n, new_v).
    start may be symbolic (0 <= start, start + D <= n guaranteed)."""
    new_n = n - D + m
    if new_n == 0:
        return 0, 0
    if is_conc(start):
        return cat([(start, take(v, n, 0, start)), (m, val),
                    (n - start - D, take(v, n, start + D, n - start - D))])
    W = max(n, new_n, 1)
    acc = None
    if n > 0:
        vv = bv(v, n)
        if W > n:
            vw = z3.ZeroExt(W - n, vv)
        else:
            vw = vv
        # top `start` bits of v, moved to the top of the new_n-wide result
        hi = z3.LShR(vw, _amount(n - start, W)) << _amount(new_n - start, W)
        # bottom n-start-D bits of v
        ones = z3.BitVecVal(mask(n), W)
        lo = vw & z3.LShR(ones, _amount(start + D, W))
        acc = hi | lo
    if m > 0:
        mv = bv(val, m)
        if W > m:
            mv = z3.ZeroExt(W - m, mv)
        mid = mv << _amount(new_n - start - m, W)
        acc = mid if acc is None else (acc | mid)
    if W > new_n:
        acc = z3.Extract(new_n - 1, 0, acc)
    return new_n, acc


def setbit(v, n: int, i, b):
    """set bit i (in range) to b (python int 0/1 or z3 Int term in {0,1})."""
    if is_conc(i) and is_conc(b) and not is_bv(v):
        m = 1 << (n - 1 - i)
        return (v | m) if b else (v & ~m)
    vv = bv(v, n)
    one = z3.BitVecVal(1, n)
    m = one << _amount(n - 1 - i, n)
    if is_conc(b):
        return (vv | m) if b else (vv & ~m)
    return z3.If(b != 0, vv | m, vv & ~m)


def fill(v, n: int, start, stop, b: int):
    """set bits [start, stop) (0 <= start <= stop <= n) to the concrete bit b."""
    if n == 0:
        return 0
    if is_conc(start) and is_conc(stop) and not is_bv(v):
        m = (mask(n) >> start) & ~(mask(n) >> stop)
        return (v | m) if b else (v & ~m & mask(n))
    vv = bv(v, n)
    ones = z3.BitVecVal(mask(n), n + 1)  # one extra bit so that a shift by n is representable for n == 2**k - ... cases
    m = z3.Extract(n - 1, 0, z3.LShR(ones, _amount(start, n + 1)) & ~z3.LShR(ones, _amount(stop, n + 1)))
    return (vv | m) if b else (vv & ~m)


def flipbit(v, n: int, i):
    if is_conc(i) and not is_bv(v):
        return v ^ (1 << (n - 1 - i))
    vv = bv(v, n)
    return vv ^ (z3.BitVecVal(1, n) << _amount(n - 1 - i, n))


def invert_all(v, n: int):
    if n == 0:
        return 0
    if not is_bv(v):
        return v ^ mask(n)
    return ~v


def reverse(v, n: int):
    if n <= 1:
        return v
    if not is_bv(v):
        r = 0
        for _ in range(n):
            r = (r << 1) | (v & 1)
            v >>= 1
        return r
    return z3.Concat(*[z3.Extract(i, i, v) for i in range(n)])


def eq(v1, v2, n: int):
    """python bool or z3 Bool term."""
    if n == 0:
        return True
    if not is_bv(v1) and not is_bv(v2):
        return v1 == v2
    return bv(v1, n) == bv(v2, n)


def binop(op: str, v1, v2, n: int):
    if n == 0:
        return 0
    if not is_bv(v1) and not is_bv(v2):
        return {'and': v1 & v2, 'or': v1 | v2, 'xor': v1 ^ v2}[op]
    a, b = bv(v1, n), bv(v2, n)
    return {'and': a & b, 'or': a | b, 'xor': a ^ b}[op]


def popcount(v, n: int):
    if not is_bv(v):
        return bin(v).count('1')
    return z3.Sum(*[z3.BV2Int(z3.Extract(i, i, v)) for i in range(n)]) if n > 1 else z3.BV2Int(v)


def any_set(v, n: int):
    if not is_bv(v):
        return v != 0
    return v != z3.BitVecVal(0, n)


def all_set(v, n: int):
    if not is_bv(v):
        return v == mask(n)
    return v == z3.BitVecVal(mask(n), n)


# provenance of Int terms produced from bit-vectors: lets from_int() undo to_uint()/to_sint() exactly
# (z3 does not simplify Int2BV over the signed If-form and answers `unknown` beyond ~8 bits)
_PROV = {}


def to_uint(v, n: int):
    if not is_bv(v):
        return v
    hit = _PROV_BV.get(v.get_id())
    if hit is not None and hit[2] is False and z3.eq(hit[0], v):
        return hit[1]
    t = z3.BV2Int(v, False)
    _PROV[t.get_id()] = (t, v, n)
    return t


def to_sint(v, n: int):
    if not is_bv(v):
        return v - (1 << n) if (v >> (n - 1)) & 1 else v
    hit = _PROV_BV.get(v.get_id())
    if hit is not None and hit[2] is True and z3.eq(hit[0], v):
        return hit[1]
    t = z3.BV2Int(v, True)
    _PROV[t.get_id()] = (t, v, n)
    return t


# reverse provenance: bit-vectors made by int2ba from a *range-checked* Int term i (0 <= i < 2^n unsigned,
# -2^(n-1) <= i < 2^(n-1) signed): converting them back with the same signedness yields i itself.
_PROV_BV = {}


def reset_provenance():
    _PROV.clear()
    _PROV_BV.clear()


def from_int(i, n: int, signed=None):
    """i python int or z3 Int term, already range-checked by the caller; two's complement into n bits."""
    if is_conc(i):
        return i & mask(n)
    hit = _PROV.get(i.get_id())
    if hit is not None and hit[2] == n and z3.eq(hit[0], i):
        return hit[1]
    if len(_PROV) > 4096 or len(_PROV_BV) > 4096:
        reset_provenance()
    r = z3.Int2BV(i, n)
    if signed is not None:
        _PROV_BV[r.get_id()] = (r, i, signed)
        rs = z3.simplify(r)   # slicing simplifies terms structurally; recognise the simplified form too
        _PROV_BV[rs.get_id()] = (rs, i, signed)
    return r


def byte_terms(v, n: int):
    """list of per-byte values (python ints or z3 Int terms) of v padded with zero bits to whole bytes."""
    pad = (-n) % 8
    tot = n + pad
    if tot == 0:
        return []
    if not is_bv(v):
        return list((v << pad).to_bytes(tot // 8, 'big'))
    vv = v if pad == 0 else z3.Concat(v, z3.BitVecVal(0, pad))
    return [z3.BV2Int(z3.Extract(tot - 1 - 8 * k, tot - 8 - 8 * k, vv)) for k in range(tot // 8)]


def from_byte_terms(items):
    """items: python ints / z3 Int terms each in [0,255] -> (n, v)."""
    if not items:
        return 0, 0
    if all(is_conc(x) for x in items):
        return 8 * len(items), int.from_bytes(bytes(items), 'big')
    parts = []
    for x in items:
        if is_conc(x):
            parts.append((8, x))
        else:
            parts.append((8, _int2bv8(x)))
    return cat(parts)


def _int2bv8(x):
    # Int2BV(BV2Int(e)) with e of width 8 is e: keep terms small
    if z3.is_app(x) and x.decl().kind() == z3.Z3_OP_BV2INT and x.arg(0).size() == 8:
        return x.arg(0)
    return z3.Int2BV(x, 8)


def reverse_each_byte(v, n):
    """bit order reversed inside every 8-bit group (n is a multiple of 8): item order <-> little-endian byte image"""
    assert n % 8 == 0
    if n == 0:
        return 0
    parts = []
    for i in range(n // 8):
        parts.append((8, reverse(take(v, n, 8 * i, 8), 8)))
    return cat(parts)[1]
