"""Pure-Python bit-vector model of the `bitarray` C extension (API subset used by bitstring).

Import name is `bitarray` (put /verif/sbx first on sys.path).  Concrete mode: contents are
Python ints.  Symbolic mode (inside a CrossHair StateSpace): contents may be z3 bit-vectors,
indices may be CrossHair symbolic ints.  Widths are always concrete.

Index arithmetic is written as ordinary Python so that, under CrossHair, it forks exactly where
the C code branches (negative index, clamping, empty slice); bit selection itself is done on the
z3 term with the index kept symbolic (see _core.py).
"""
from __future__ import annotations

from . import _core as C
from ._core import NoTracing

__version__ = '3.11.0'
_SBX_MODEL = True


def _index(x, what='bitarray indices'):
    """operator.index that keeps CrossHair symbolic ints symbolic."""
    if isinstance(x, int):
        return x
    try:
        f = type(x).__index__
    except AttributeError:
        raise TypeError(f"'{type(x).__name__}' object cannot be interpreted as an integer")
    return f(x)


_SSIZE_MAX = (1 << 63) - 1


def _ssize(x):
    """arguments converted to Py_ssize_t by the extension: larger Python ints raise OverflowError"""
    if x > _SSIZE_MAX or x < -_SSIZE_MAX - 1:
        raise OverflowError("cannot fit 'int' into an index-sized integer")
    return x


def _adjust(key: slice, n: int):
    """PySlice_Unpack + PySlice_AdjustIndices. Returns (start, stop, step, slicelength)."""
    step = 1 if key.step is None else _index(key.step)
    if step == 0:
        raise ValueError("slice step cannot be zero")
    if step > 0:
        if key.start is None:
            start = 0
        else:
            start = _index(key.start)
            if start < 0:
                start += n
                if start < 0:
                    start = 0
            elif start >= n:
                start = n
        if key.stop is None:
            stop = n
        else:
            stop = _index(key.stop)
            if stop < 0:
                stop += n
                if stop < 0:
                    stop = 0
            elif stop >= n:
                stop = n
        if start < stop:
            length = (stop - start - 1) // step + 1
        else:
            length = 0
    else:
        if key.start is None:
            start = n - 1
        else:
            start = _index(key.start)
            if start < 0:
                start += n
                if start < 0:
                    start = -1
            elif start >= n:
                start = n - 1
        if key.stop is None:
            stop = -1
        else:
            stop = _index(key.stop)
            if stop < 0:
                stop += n
                if stop < 0:
                    stop = -1
            elif stop >= n:
                stop = n - 1
        if stop < start:
            length = (start - stop - 1) // (-step) + 1
        else:
            length = 0
    return start, stop, step, length


def _conc(x):
    """Concretise an int that has to become a width / trip count (forks under CrossHair)."""
    with NoTracing():
        sym = C.is_symint(x)
        if not sym:
            return x if type(x) is int else int(x)
    return C.realize(x)


def _is_one(step) -> bool:
    if type(step) is int:
        return step == 1
    return bool(step == 1)


_MISSING = object()


class bitarray:
    __slots__ = ('_n', '_v', '_ro', '_exports', '_le', '__weakref__')

    # ------------------------------------------------------------ construction
    def __new__(cls, initializer=None, /, endian=None, buffer=None):
        # the internal value is always in item order (item 0 = most significant z3 bit); the bit-endianness only
        # matters for byte/integer conversions (tobytes, frombytes, buffers, util.ba2int, ...) and is kept in _le
        self = object.__new__(cls)
        self._ro = False
        self._exports = 0
        if endian not in ('big', 'little', None):
            raise ValueError(f"bit-endianness must be either 'little' or 'big', not '{endian}'")
        if endian is None:
            self._le = bool(initializer._le) if isinstance(initializer, bitarray) else False
        else:
            self._le = endian == 'little'
        if buffer is not None:
            if initializer is not None:
                raise TypeError("buffer requires no initializer argument")
            shared = getattr(buffer, '_sbx_bits', None)
            if shared is not None:
                self._n, self._v = shared._n, shared._v
            else:
                b = bytes(buffer)
                self._n, self._v = 8 * len(b), int.from_bytes(b, 'big')
            if self._le:
                with NoTracing():
                    self._v = C.reverse_each_byte(self._v, self._n)
            self._ro = True
            return self
        if initializer is None:
            self._n, self._v = 0, 0
        elif isinstance(initializer, bool):
            raise TypeError("cannot create bitarray from 'bool' object")
        elif isinstance(initializer, int):
            n = _conc(_ssize(initializer))
            if n < 0:
                raise ValueError("bitarray length must be >= 0")
            self._n, self._v = n, 0
        elif isinstance(initializer, bitarray):
            self._n, self._v = initializer._n, initializer._v
        elif isinstance(initializer, str):
            self._n, self._v = _parse01(initializer)
        elif isinstance(initializer, (bytes, bytearray)):
            self._n, self._v = 0, 0
            self.frombytes(initializer)
        elif isinstance(initializer, memoryview):
            raise TypeError("cannot extend bitarray with 'memoryview' bytes-like object")
        else:
            self._n, self._v = 0, 0
            self.extend(initializer)
        return self

    def __init__(self, *a, **k):
        pass

    @classmethod
    def _mk(cls, n, v, le=False):
        self = object.__new__(cls)
        self._n, self._v, self._ro, self._exports, self._le = n, (v if n else 0), False, 0, bool(le)
        return self

    # ------------------------------------------------------------ basic protocol
    def __len__(self):
        return self._n

    @property
    def readonly(self):
        return self._ro

    @property
    def endian(self):
        return 'little' if self._le else 'big'

    @property
    def nbytes(self):
        return (self._n + 7) // 8

    @property
    def padbits(self):
        return (-self._n) % 8

    def _wr(self):
        if self._ro:
            raise TypeError("cannot modify read-only memory")

    def copy(self):
        return bitarray._mk(self._n, self._v, self._le)

    __copy__ = copy

    def __deepcopy__(self, memo):
        return bitarray._mk(self._n, self._v, self._le)

    def __repr__(self):
        return f"bitarray('{self.to01()}')"

    __str__ = __repr__

    __hash__ = None

    def __iter__(self):
        for i in range(self._n):
            yield self._sel(i)

    def __reversed__(self):
        for i in range(self._n - 1, -1, -1):
            yield self._sel(i)

    def __contains__(self, x):
        return self.find(x) >= 0

    def _sel(self, i):
        with NoTracing():
            return C.wrap_int(C.select(self._v, self._n, C.ival(i)))

    # ------------------------------------------------------------ comparison
    def __eq__(self, other):
        if not isinstance(other, bitarray):
            return NotImplemented
        if self._n != other._n:
            return False
        with NoTracing():
            return C.wrap_bool(C.eq(self._v, other._v, self._n))

    def __ne__(self, other):
        if not isinstance(other, bitarray):
            return NotImplemented
        r = self.__eq__(other)
        return not r

    def _cmp(self, other):
        if not isinstance(other, bitarray):
            return NotImplemented
        a, b = self.to01(), other.to01()
        return (a > b) - (a < b)

    def __lt__(self, other):
        c = self._cmp(other)
        return c if c is NotImplemented else c < 0

    def __le__(self, other):
        c = self._cmp(other)
        return c if c is NotImplemented else c <= 0

    def __gt__(self, other):
        c = self._cmp(other)
        return c if c is NotImplemented else c > 0

    def __ge__(self, other):
        c = self._cmp(other)
        return c if c is NotImplemented else c >= 0

    # ------------------------------------------------------------ item access
    def __getitem__(self, key):
        n = self._n
        if isinstance(key, slice):
            start, stop, step, length = _adjust(key, n)
            L = _conc(length)
            if L == 0:
                return bitarray._mk(0, 0, self._le)
            with NoTracing():
                if _step_is(step, 1):
                    v = C.take(self._v, n, C.ival(start), L)
                else:
                    v = C.gather(self._v, n, C.ival(start), C.ival(step), L)
                return bitarray._mk(L, v, self._le)
        if isinstance(key, (list, tuple, bitarray)):
            return self._getseq(key)
        if not isinstance(key, int):
            if not hasattr(type(key), '__index__'):
                raise TypeError(f"bitarray subscript must be an index, slice or sequence, not '{type(key).__name__}'")
            key = _index(key)
        i = key
        if i < 0:
            i += n
        if i < 0 or i >= n:
            raise IndexError("bitarray index out of range")
        return self._sel(i)

    def _getseq(self, key):
        if isinstance(key, bitarray):
            if key._n != self._n:
                raise IndexError(f"bitarray length is {self._n}, but mask has length {key._n}")
            idx = [i for i in range(self._n) if key[i]]
        else:
            idx = []
            for k in key:
                k = _index(k)
                if k < 0:
                    k += self._n
                if k < 0 or k >= self._n:
                    raise IndexError("bitarray index out of range")
                idx.append(k)
        r = bitarray._mk(0, 0, self._le)
        for i in idx:
            r._append_bit(self._sel(i))
        return r

    def _append_bit(self, b):
        with NoTracing():
            bz = C.ival(b)
            if C.is_conc(bz):
                part = (1, bz)
            else:
                part = (1, C.z3.Int2BV(bz, 1))
            self._n, self._v = C.cat([(self._n, self._v), part])

    def __setitem__(self, key, value):
        self._wr()
        n = self._n
        if isinstance(key, slice):
            start, stop, step, length = _adjust(key, n)
            if isinstance(value, bitarray):
                if _is_one(step):
                    if stop < start:
                        stop = start
                    D = _conc(stop - start)
                    m = value._n
                    vv = value._v  # read before mutation (value may be self)
                    with NoTracing():
                        self._n, self._v = C.splice(self._v, n, C.ival(start), D, vv, m)
                    return
                L = _conc(length)
                if L != value._n:
                    raise ValueError(f"attempt to assign sequence of size {value._n} to extended slice of size {L}")
                src_n, src_v = value._n, value._v
                with NoTracing():
                    s, st = C.ival(start), C.ival(step)
                    v = self._v
                    for j in range(L):
                        v = C.setbit(v, n, s + j * st, C.select(src_v, src_n, j))
                    self._v = v
                return
            if isinstance(value, int):
                b = _bitval(value)
                if _is_one(step):
                    if stop < start:
                        stop = start
                    with NoTracing():
                        self._v = C.fill(self._v, n, C.ival(start), C.ival(stop), b)
                    return
                L = _conc(length)
                with NoTracing():
                    s, st = C.ival(start), C.ival(step)
                    v = self._v
                    for j in range(L):
                        v = C.setbit(v, n, s + j * st, b)
                    self._v = v
                return
            raise TypeError(f"bitarray or int expected for slice assignment, not '{type(value).__name__}'")
        if isinstance(key, (list, tuple, bitarray)):
            raise NotImplementedError("sbx model: sequence/mask assignment is not modelled")
        if not isinstance(key, int):
            if not hasattr(type(key), '__index__'):
                raise TypeError(f"bitarray subscript must be an index, slice or sequence, not '{type(key).__name__}'")
            key = _index(key)
        i = key
        b = _bitval(value)
        if i < 0:
            i += n
        if i < 0 or i >= n:
            raise IndexError("bitarray assignment index out of range")
        with NoTracing():
            self._v = C.setbit(self._v, n, C.ival(i), C.ival(b))

    def __delitem__(self, key):
        self._wr()
        n = self._n
        if isinstance(key, slice):
            start, stop, step, length = _adjust(key, n)
            if _is_one(step):
                if stop < start:
                    stop = start
                D = _conc(stop - start)
                with NoTracing():
                    self._n, self._v = C.splice(self._v, n, C.ival(start), D, 0, 0)
                return
            L = _conc(length)
            if L == 0:
                return
            s, st = _conc(start), _conc(step)
            drop = set(s + j * st for j in range(L))
            keep = [i for i in range(n) if i not in drop]
            with NoTracing():
                parts = [(1, C.take(self._v, n, i, 1)) for i in keep]
                self._n, self._v = C.cat(parts)
            return
        if isinstance(key, (list, tuple, bitarray)):
            raise NotImplementedError("sbx model: sequence/mask deletion is not modelled")
        if not isinstance(key, int):
            if not hasattr(type(key), '__index__'):
                raise TypeError(f"bitarray subscript must be an index, slice or sequence, not '{type(key).__name__}'")
            key = _index(key)
        i = key
        if i < 0:
            i += n
        if i < 0 or i >= n:
            raise IndexError("bitarray assignment index out of range")
        with NoTracing():
            self._n, self._v = C.splice(self._v, n, C.ival(i), 1, 0, 0)

    # ------------------------------------------------------------ growth
    def _coerce_ext(self, other):
        if isinstance(other, bitarray):
            return other._n, other._v
        if isinstance(other, str):
            return _parse01(other)
        if isinstance(other, (bytes, bytearray, memoryview)):
            raise TypeError(f"cannot extend bitarray with '{type(other).__name__}' bytes-like object")
        if isinstance(other, int):
            raise TypeError("'int' object is not iterable")
        tmp = bitarray._mk(0, 0)
        for x in other:
            tmp._append_bit(_bitval(x))
        return tmp._n, tmp._v

    def extend(self, other):
        self._wr()
        on, ov = self._coerce_ext(other)
        with NoTracing():
            self._n, self._v = C.cat([(self._n, self._v), (on, ov)])

    def append(self, x):
        self._wr()
        self._append_bit(_bitval(x))

    def __iadd__(self, other):
        self.extend(other)
        return self

    def __add__(self, other):
        r = self.copy()
        r += other
        return r

    def __mul__(self, k):
        k = _conc(_ssize(_index(k)))
        if k <= 0 or self._n == 0:
            return bitarray._mk(0, 0, self._le)
        with NoTracing():
            n, v = C.cat([(self._n, self._v)] * k)
        return bitarray._mk(n, v, self._le)

    __rmul__ = __mul__

    def __imul__(self, k):
        self._wr()
        r = self * k
        self._n, self._v = r._n, r._v
        return self

    def insert(self, i, x):
        self._wr()
        i = _ssize(_index(i))
        n = self._n
        if i < 0:
            i += n
            if i < 0:
                i = 0
        if i > n:
            i = n
        b = _bitval(x)
        with NoTracing():
            bz = C.ival(b)
            part = bz if C.is_conc(bz) else C.z3.Int2BV(bz, 1)
            self._n, self._v = C.splice(self._v, n, C.ival(i), 0, part, 1)

    def pop(self, i=-1):
        self._wr()
        _ssize(_index(i))
        if self._n == 0:
            raise IndexError("pop from empty bitarray")
        x = self[i]
        del self[i]
        return x

    def clear(self):
        self._wr()
        self._n, self._v = 0, 0

    # ------------------------------------------------------------ whole-array ops
    def setall(self, value):
        self._wr()
        b = _bitval(value)
        b = _conc(b)
        self._v = C.mask(self._n) if b else 0

    def reverse(self):
        self._wr()
        with NoTracing():
            self._v = C.reverse(self._v, self._n)

    def invert(self, index=None):
        self._wr()
        if index is None:
            with NoTracing():
                self._v = C.invert_all(self._v, self._n)
            return
        if isinstance(index, slice):
            start, stop, step, length = _adjust(index, self._n)
            L = _conc(length)
            with NoTracing():
                s, st = C.ival(start), C.ival(step)
                v = self._v
                for j in range(L):
                    v = C.flipbit(v, self._n, s + j * st)
                self._v = v
            return
        i = _index(index)
        n = self._n
        if i < 0:
            i += n
        if i < 0 or i >= n:
            raise IndexError("index out of range")
        with NoTracing():
            self._v = C.flipbit(self._v, n, C.ival(i))

    def _bin(self, other, op, inplace):
        if not isinstance(other, bitarray):
            return NotImplemented
        if self._n != other._n:
            raise ValueError("bitarrays of equal length expected")
        if self._le != other._le:
            raise ValueError("bitarrays of equal bit-endianness expected")
        with NoTracing():
            v = C.binop(op, self._v, other._v, self._n)
        if inplace:
            self._wr()
            self._v = v
            return self
        return bitarray._mk(self._n, v, self._le)

    def __and__(self, o):
        return self._bin(o, 'and', False)

    def __or__(self, o):
        return self._bin(o, 'or', False)

    def __xor__(self, o):
        return self._bin(o, 'xor', False)

    def __iand__(self, o):
        return self._bin(o, 'and', True)

    def __ior__(self, o):
        return self._bin(o, 'or', True)

    def __ixor__(self, o):
        return self._bin(o, 'xor', True)

    def __invert__(self):
        with NoTracing():
            return bitarray._mk(self._n, C.invert_all(self._v, self._n), self._le)

    def _shift(self, k, left):
        k = _ssize(_index(k))
        if k < 0:
            raise ValueError("negative shift count")
        n = self._n
        if n == 0:
            return 0
        if k >= n:
            return 0
        k = _conc(k)
        with NoTracing():
            if left:
                _, v = C.cat([(n - k, C.take(self._v, n, k, n - k)), (k, 0)])
            else:
                _, v = C.cat([(k, 0), (n - k, C.take(self._v, n, 0, n - k))])
        return v

    def __lshift__(self, k):
        return bitarray._mk(self._n, self._shift(k, True), self._le)

    def __rshift__(self, k):
        return bitarray._mk(self._n, self._shift(k, False), self._le)

    def __ilshift__(self, k):
        self._wr()
        self._v = self._shift(k, True)
        return self

    def __irshift__(self, k):
        self._wr()
        self._v = self._shift(k, False)
        return self

    def any(self):
        with NoTracing():
            return C.wrap_bool(C.any_set(self._v, self._n)) if self._n else False

    def all(self):
        with NoTracing():
            return C.wrap_bool(C.all_set(self._v, self._n)) if self._n else True

    def count(self, value=1, start=0, stop=None, step=1):
        if isinstance(value, bitarray):
            raise NotImplementedError("sbx model: count of sub-bitarray is not modelled")
        b = _conc(_bitval(value))
        sub = self
        if start != 0 or stop is not None or step != 1:
            sub = self[slice(start, stop, step)]
        with NoTracing():
            c = C.popcount(sub._v, sub._n) if sub._n else 0
            if not b:
                c = sub._n - c
            return C.wrap_int(c)

    # ------------------------------------------------------------ search
    def _pattern(self, sub):
        if isinstance(sub, bitarray):
            return sub
        if isinstance(sub, int):
            b = _conc(_bitval(sub))
            return bitarray._mk(1, b)
        raise TypeError(f"bitarray or int expected, not '{type(sub).__name__}'")

    def _window(self, start, stop):
        n = self._n
        if start is None or stop is None:
            raise TypeError("'NoneType' object cannot be interpreted as an integer")
        start = _ssize(_index(start))
        stop = n if stop is _MISSING else _ssize(_index(stop))
        if start < 0:
            start += n
            if start < 0:
                start = 0
        elif start > n:
            start = n
        if stop < 0:
            stop += n
            if stop < 0:
                stop = 0
        elif stop > n:
            stop = n
        # candidate positions are made concrete before the match term is built
        return _conc(start), _conc(stop)

    def _match(self, sub, p):
        with NoTracing():
            return C.wrap_bool(C.eq(C.take(self._v, self._n, p, sub._n), sub._v, sub._n))

    def _match_terms(self, sub, cands):
        """tracing off: list of python bools / z3 Bool terms, one per candidate position"""
        return [C.eq(C.take(self._v, self._n, p, sub._n), sub._v, sub._n) for p in cands]

    def find(self, sub, start=0, stop=_MISSING, /, right=False):
        sub = self._pattern(sub)
        start, stop = self._window(start, stop)
        m = sub._n
        if stop - start < m:
            return -1
        cands = list(range(stop - m, start - 1, -1) if right else range(start, stop - m + 1))
        with NoTracing():
            terms = self._match_terms(sub, cands)
            if all(isinstance(t, bool) for t in terms):
                for p, t in zip(cands, terms):
                    if t:
                        return p
                return -1
            # symbolic contents: the result is a single If-chain over the (concrete) candidates - no fork per candidate
            z3 = C.z3
            r = z3.IntVal(-1)
            for p, t in reversed(list(zip(cands, terms))):
                r = z3.If(t if not isinstance(t, bool) else z3.BoolVal(t), z3.IntVal(p), r)
            return C.SymbolicInt(r)

    def index(self, sub, start=0, stop=_MISSING, /, right=False):
        r = self.find(sub, start, stop, right=right)
        if r < 0:
            raise ValueError(f"{sub!r} not in bitarray")
        return r

    def search(self, sub, start=0, stop=_MISSING, /, right=False):
        sub = self._pattern(sub)
        start, stop = self._window(start, stop)
        return self._search_gen(sub, start, stop, right)

    def _search_gen(self, sub, start, stop, right):
        m = sub._n
        if stop - start < m:
            return
        cands = list(range(stop - m, start - 1, -1) if right else range(start, stop - m + 1))
        with NoTracing():
            symbolic = C.is_bv(self._v) or C.is_bv(sub._v)
        if not symbolic:
            for p in cands:
                if p + m > self._n:  # array may have shrunk while iterating
                    continue
                if self._match(sub, p):
                    yield p
            return
        # symbolic contents: the k-th match position is a term; the only fork is "is there a k-th match?"
        with NoTracing():
            z3 = C.z3
            terms = [t if not isinstance(t, bool) else z3.BoolVal(t) for t in self._match_terms(sub, cands)]
            before = []
            acc = z3.IntVal(0)
            for t in terms:
                before.append(acc)
                acc = acc + z3.If(t, 1, 0)
        k = 0
        while True:
            with NoTracing():
                kth = [z3.And(t, b == k) for t, b in zip(terms, before)]
                exists = C.SymbolicBool(z3.Or(*kth)) if kth else False
                pos = z3.Sum(*[z3.If(c, z3.IntVal(p), z3.IntVal(0)) for c, p in zip(kth, cands)]) if len(kth) > 1 else z3.If(kth[0], z3.IntVal(cands[0]), z3.IntVal(0))
            if not exists:
                return
            with NoTracing():
                out = C.SymbolicInt(pos)
            yield out
            k += 1

    # ------------------------------------------------------------ conversions
    def tobytes(self):
        with NoTracing():
            if self._le:
                n8 = 8 * ((self._n + 7) // 8)
                _, padded = C.cat([(self._n, self._v), (n8 - self._n, 0)])
                items = C.byte_terms(C.reverse_each_byte(padded, n8), n8)
            else:
                items = C.byte_terms(self._v, self._n)
            if all(C.is_conc(x) for x in items):
                return bytes(items)
            return C.SymbolicBytes([C.wrap_int(x) for x in items])

    def frombytes(self, b):
        self._wr()
        with NoTracing():
            if isinstance(b, C.BytesLike):
                inner = b.inner
                with C.ResumedTracing():
                    seq = [inner[i] for i in range(len(inner))]
            elif isinstance(b, (bytes, bytearray, memoryview)):
                seq = list(bytes(b))
            else:
                raise TypeError(f"a bytes-like object is required, not '{type(b).__name__}'")
            n2, v2 = C.from_byte_terms([C.ival(x) for x in seq])
            if self._le:
                v2 = C.reverse_each_byte(v2, n2)
            self._n, self._v = C.cat([(self._n, self._v), (n2, v2)])

    def to01(self, group=0, sep=' '):
        with NoTracing():
            if not C.is_bv(self._v):
                return format(self._v, f'0{self._n}b') if self._n else ''
            n = self._n
            cps = [C.SymbolicInt(48 + C.z3.BV2Int(C.z3.Extract(n - 1 - i, n - 1 - i, self._v))) for i in range(n)]
            return C.LazyIntSymbolicStr(cps)

    def tolist(self):
        return [self._sel(i) for i in range(self._n)]

    def fill(self):
        self._wr()
        p = self.padbits
        with NoTracing():
            self._n, self._v = C.cat([(self._n, self._v), (p, 0)])
        return p

    def bytereverse(self, start=0, stop=None):
        raise NotImplementedError("sbx model: bytereverse is not modelled")

    def buffer_info(self):
        raise NotImplementedError("sbx model: buffer_info is not modelled")

    def tofile(self, f):
        f.write(self.tobytes())

    def fromfile(self, f, n=-1):
        self.frombytes(f.read() if n < 0 else f.read(n))


class frozenbitarray(bitarray):
    __slots__ = ()

    def __new__(cls, *a, **k):
        self = bitarray.__new__(cls, *a, **k)
        self._ro = True
        return self

    def __hash__(self):
        return hash((self._n, C.realize(self._v) if not isinstance(self._v, int) else self._v))


def _step_is(step, k) -> bool:
    """tracing-off test for a concrete step value (never forks)."""
    return type(step) is int and step == k


def _bitval(x):
    """validate a bit value the way bitarray does (int 0/1; bools are ints)."""
    if not isinstance(x, int):
        if hasattr(type(x), '__index__'):
            x = _index(x)
        else:
            raise TypeError(f"'{type(x).__name__}' object cannot be interpreted as an integer")
    if x == 0:
        return 0
    if x == 1:
        return 1
    raise ValueError(f"bit must be 0 or 1, got {x}")


_WS = ' \t\n\r\v\f_'


def _parse01(s):
    """bitarray('0110 1_1') -> (n, v); whitespace and underscore ignored."""
    with NoTracing():
        symbolic = C.HAVE_CH and isinstance(s, C.AnySymbolicStr)
    if not symbolic:
        n = v = 0
        for ch in s:
            if ch == '0' or ch == '1':
                v = (v << 1) | (ch == '1')
                n += 1
            elif ch in _WS:
                continue
            else:
                raise ValueError(f"expected '0' or '1' (or whitespace or underscore), got '{ch}' ({hex(ord(ch))})")
        return n, v
    # symbolic text: every character forks on its class (digit / ignorable / invalid)
    bits = []
    for i in range(len(s)):
        o = ord(s[i])
        if o == 48:
            bits.append(0)
        elif o == 49:
            bits.append(1)
        elif o in (32, 9, 10, 13, 11, 12, 95):
            continue
        else:
            raise ValueError("expected '0' or '1' (or whitespace or underscore)")
    v = 0
    for b in bits:
        v = (v << 1) | b
    return len(bits), v


def bits2bytes(n):
    if not isinstance(n, int):
        raise TypeError("integer expected")
    if n < 0:
        raise ValueError("non-negative integer expected")
    return (n + 7) // 8


def get_default_endian():
    return 'big'


def test(*a, **k):  # pragma: no cover
    raise NotImplementedError


from . import util  # noqa: E402  (bitstring does `import bitarray.util` too)
