#!/venv/bin/python
"""Entry point of the verification machinery.

  check.py --setup                       build the overlay venv, validate model + oracles
  check.py Cxx --tier quick|thorough     decide property Cxx on /repo's current tree
  check.py --replay <file>               re-run one recorded counterexample on the real C extension

Exit 0: property held on everything explored (KNOWN-FINDING lines allowed).
Exit 1: `VIOLATION property=<id> replay=<path>` printed for a replay-confirmed violation.
Exit 3: harness error (model/real disagreement, vacuous condition, counterexample that does not replay).
"""
from __future__ import annotations

import argparse
import fnmatch
import hashlib
import importlib
import inspect
import json
import os
import subprocess
import sys
import time

VERIF = os.path.dirname(os.path.abspath(__file__))
VENV = os.path.join(VERIF, '.venv')
VPY = os.path.join(VENV, 'bin', 'python')
REPO = os.environ.get('VERIF_REPO', '/repo')
OUT = os.environ.get('VERIF_OUT') or os.path.dirname(os.path.abspath(__file__))   # evidence/, replays/ (own experiments may redirect them)
WHEELS = '/opt/veriftools/wheels'
GUARD = 'SCOTT_GRIFFITHS_BITSTRING_VERIF'


def ensure_venv():
    """overlay venv = /venv's interpreter and packages + crosshair-tool/z3 from the offline wheelhouse"""
    marker = os.path.join(VENV, '.ok')
    if os.path.exists(marker):
        return
    import shutil
    lock = os.path.join(VERIF, '.venv.lock')
    import fcntl
    with open(lock, 'w') as lf:
        fcntl.flock(lf, fcntl.LOCK_EX)
        if os.path.exists(marker):
            return
        if os.path.exists(VENV):
            shutil.rmtree(VENV)
        subprocess.check_call(['/venv/bin/python', '-m', 'venv', VENV])
        sp = subprocess.check_output([VPY, '-c', 'import site; print(site.getsitepackages()[0])'], text=True).strip()
        with open(os.path.join(sp, '_overlay.pth'), 'w') as f:
            f.write("import site; site.addsitedir('/venv/lib/python3.12/site-packages')\n")
        env = dict(os.environ, PIP_NO_INDEX='1')
        subprocess.check_call([VPY, '-m', 'pip', 'install', '-q', '--no-index', '--find-links', WHEELS, 'crosshair-tool'], env=env)
        open(marker, 'w').write('ok\n')


def reexec_in_venv():
    if os.path.realpath(sys.prefix) != os.path.realpath(VENV):
        ensure_venv()
        env = dict(os.environ)
        env[GUARD] = '1'
        env.setdefault('PYTHONHASHSEED', '0')
        env['PYTHONDONTWRITEBYTECODE'] = '1'
        os.execve(VPY, [VPY, os.path.abspath(__file__)] + sys.argv[1:], env)


# ----------------------------------------------------------------------------- setup / self tests
def run_modelcheck(level):
    r = subprocess.run([VPY, '-m', 'kit.modelcheck', '--level', level], cwd=VERIF, capture_output=True, text=True,
                       env=dict(os.environ, PYTHONPATH=REPO))
    line = (r.stdout.strip().splitlines() or ['(no output)'])[0]
    return r.returncode == 0, line, r.stdout + r.stderr


def cmd_setup():
    ensure_venv()
    ok, line, out = run_modelcheck('full')
    print(line)
    if not ok:
        print(out)
        print("HARNESS-ERROR: sbx model disagrees with the real bitarray extension")
        return 3
    sys.path.insert(0, REPO)
    from kit import oracle
    n = oracle.oracle_selftest()
    print(f"oracle selftest: {n} cases agree with CPython sequences")
    # symbolic branch of the model vs its concrete branch (harness/m00.py), solver-enumerated small scope
    rc = subprocess.call([VPY, os.path.abspath(__file__), 'M00', '--tier', 'quick'], cwd=VERIF)
    if rc != 0:
        print("HARNESS-ERROR: symbolic branch of the sbx model disagrees with its concrete branch")
        return 3
    ev = json.load(open(os.path.join(VERIF, 'evidence', 'M00.json')))
    if ev['coverage']['discharged'] != ev['coverage']['obligations']:
        print("HARNESS-ERROR: model self-test M00 inconclusive")
        return 3
    return 0


# ----------------------------------------------------------------------------- conditions
def load_conditions(prop, tier):
    mod = importlib.import_module(f'harness.{prop.lower()}')
    conds = mod.conditions(tier)
    seen = set()
    for c in conds:
        c.module = mod.__name__
        assert c.id not in seen, f"duplicate condition id {c.id}"
        seen.add(c.id)
    return mod, conds


def find_condition(prop, cid, tier_first=None):
    # the same id can exist in both tiers with different bounds: look in the tier the record was made in first
    for tier in ([tier_first] if tier_first in ('quick', 'thorough') else []) + ['quick', 'thorough']:
        _, conds = load_conditions(prop, tier)
        for c in conds:
            if c.id == cid:
                return c
    raise SystemExit(f"replay: no condition {cid!r} in harness for {prop}")


def cmd_replay(path, quiet=False):
    """exit 1 iff the recorded input violates the property on the real code (real C extension)"""
    sys.path.insert(0, REPO)
    rec = json.load(open(path))
    import bitarray
    assert not getattr(bitarray, '_SBX_MODEL', False), "replay must run on the real extension"
    from kit.k import ConcK
    import bitstring
    cond = find_condition(rec['property'], rec['cond'], rec.get('tier'))
    K = ConcK(cond, rec['inputs'])
    opt0 = (bitstring.options.lsb0, bitstring.options.bytealigned, bitstring.options.mxfp_overflow)
    try:
        try:
            ok = bool(cond.fn(K))
        except Exception as e:  # noqa: BLE001
            import traceback
            ok = False
            K.failure = {'what': 'harness raised ' + type(e).__name__, 'observed': {'traceback': traceback.format_exc()[-1500:]}}
    finally:
        bitstring.options.lsb0, bitstring.options.bytealigned, bitstring.options.mxfp_overflow = opt0
    if not quiet:
        print(f"replay {rec['property']} {rec['cond']}")
        print(f"  bounds : {cond.bounds}")
        print(f"  inputs : {json.dumps(rec['inputs'])}")
        if ok:
            print("  result : property HOLDS on this input (real bitarray extension)")
        else:
            print(f"  result : VIOLATED - {K.failure['what']}")
            print(f"  observed: {json.dumps(K.failure.get('observed'))}")
            if K.failure.get('notes'):
                print(f"  notes  : {json.dumps(K.failure.get('notes'))}")
    return 0 if ok else 1


def replay_subprocess(path):
    r = subprocess.run([VPY, os.path.abspath(__file__), '--replay', path], cwd=VERIF, capture_output=True, text=True)
    return r.returncode, r.stdout + r.stderr


def src_hashes(drives):
    """qualified names + hash of current source of the /repo functions a condition drives"""
    sys.path.insert(0, REPO) if REPO not in sys.path else None
    out = {}
    import bitstring  # noqa: F401
    for q in drives:
        try:
            modname, _, rest = q.partition(':')
            obj = importlib.import_module(modname)
            for part in rest.split('.'):
                obj = inspect.getattr_static(obj, part) if inspect.isclass(obj) else getattr(obj, part)
            if isinstance(obj, (classmethod, staticmethod)):
                obj = obj.__func__
            if isinstance(obj, property):
                obj = obj.fget
            src = inspect.getsource(obj)
            out[q] = hashlib.sha256(src.encode()).hexdigest()[:12]
        except Exception as e:  # noqa: BLE001
            out[q] = f'unresolved ({type(e).__name__})'
    return out


def cmd_check(prop, tier, jobs, only, seed):
    t0 = time.time()
    os.chdir(VERIF)
    from kit import engine
    print(f"== {prop} tier={tier} seed={seed} repo={REPO}")
    # (a) model + oracle validation (subset at the start of every check)
    ok, line, out = run_modelcheck('smoke' if tier == 'quick' else 'full')
    print("  " + line)
    if not ok:
        print(out)
        print(f"HARNESS-ERROR property={prop} sbx model disagrees with the real bitarray extension")
        return 3
    model_line = line

    # (b) known findings: replay each listed witness on the real code
    findings, fixed = engine.load_known(prop)
    known_report = []
    for kf in findings:
        wpath = os.path.join(VERIF, kf.witness)
        rc, o = replay_subprocess(wpath)
        if rc == 1:
            print(f"KNOWN-FINDING: property={prop} {kf.text} [key={kf.key} witness={kf.witness}]")
            known_report.append({'key': kf.key, 'reproduces': True, 'text': kf.text})
        elif rc == 0:
            print(f"  note: listed finding {kf.key} no longer reproduces (witness {kf.witness} holds)")
            known_report.append({'key': kf.key, 'reproduces': False, 'text': kf.text})
        else:
            print(o)
            print(f"HARNESS-ERROR property={prop} witness replay failed for {kf.key}")
            return 3

    # (c) exploration
    from kit import env
    env.install()
    mod, conds = load_conditions(prop, tier)
    if only:
        conds = [c for c in conds if fnmatch.fnmatch(c.id, only)]
    for c in conds:
        c.known = [k for k in findings if fnmatch.fnmatch(c.id, k.cond_glob)]
    if os.environ.get('VERIF_NO_TWINS') != '1':
        conds = conds + [engine.make_twin(c) for c in conds if c.direct is None and not c.twin]
    if os.environ.get('VERIF_TWINS_ONLY') == '1':
        # smoke run: one path per condition (its reachability twin) - every harness of the tier must at least run to its end once
        conds = [c for c in conds if c.twin]
    print(f"  {sum(1 for c in conds if not c.twin)} conditions (+{sum(1 for c in conds if c.twin)} reachability twins), {jobs} workers")
    results = engine.run_pool(conds, seed, jobs)

    # (d) verdicts
    violations, harness_errors, inconclusive, confirmed = [], [], [], []
    twins_ok = twins_bad = twins_na = 0
    os.makedirs(os.path.join(OUT, 'replays', prop), exist_ok=True)
    status_of = {c.id: r['status'] for c, r in zip(conds, results)}
    twin_replays = []
    for c, r in zip(conds, results):
        st = r['status']
        if c.twin:
            main_st = status_of.get(c.id[:-len('#reach')])
            if st == 'refuted':
                twins_ok += 1
                f = r.get('failure') or {}
                if f.get('inputs') is not None and not c.known:      # (a known-finding call site legitimately fails on the real code)
                    twin_replays.append((c, r, f))
            elif main_st in ('confirmed', None):
                twins_bad += 1
                harness_errors.append((c, r, f"reachability twin not refuted (status {st}) although the condition is reported as holding"))
            else:
                twins_na += 1       # the condition itself is refuted/inconclusive: reported there
            continue
        if st == 'confirmed':
            confirmed.append((c, r))
        elif st == 'refuted':
            f = r.get('failure') or {}
            if not f.get('inputs') and f.get('inputs') != {}:
                harness_errors.append((c, r, 'counterexample inputs could not be captured: ' + str(f.get('observed'))[:400]))
                continue
            rec = {'property': prop, 'cond': c.id, 'tier': tier, 'bounds': c.bounds, 'params': {k: v for k, v in c.params.items() if isinstance(v, (int, str, bool, float, type(None)))},
                   'inputs': f['inputs'], 'what': f.get('what'), 'observed_symbolic_run': f.get('observed')}
            h = hashlib.sha256(json.dumps([c.id, f['inputs']], sort_keys=True).encode()).hexdigest()[:10]
            safe = ''.join(ch if ch.isalnum() or ch in '-_.' else '_' for ch in c.id)
            rpath = os.path.join('replays', prop, f"{safe}-{h}.json")
            with open(os.path.join(OUT, rpath), 'w') as fh:
                json.dump(rec, fh, indent=1)
            rc, o = replay_subprocess(os.path.join(OUT, rpath))
            if rc == 1:
                violations.append((c, r, rpath, o))
            else:
                harness_errors.append((c, r, f"counterexample does not reproduce on the real code (replay rc={rc}): {rpath}\n{o[-800:]}"))
        elif st in ('vacuous', 'harness-error'):
            f = r.get('failure') or {}
            tbk = str((f.get('observed') or {}).get('traceback', ''))[-700:]
            harness_errors.append((c, r, f"{st}: {f.get('what')} ...{tbk}"))
        else:
            inconclusive.append((c, r))

    # (d2) twin witnesses are replayed on the real code: the real harness must run to its end and hold there
    step = max(1, len(twin_replays) // (64 if tier == 'quick' else 200))
    chosen = twin_replays[::step]
    os.makedirs(os.path.join(OUT, 'replays', prop, 'twins'), exist_ok=True)

    def _twin_replay(item):
        c, r, f = item
        cid = c.id[:-len('#reach')]
        rec = {'property': prop, 'cond': cid, 'tier': tier, 'bounds': c.bounds, 'params': {k: v for k, v in c.params.items() if isinstance(v, (int, str, bool, float, type(None)))},
               'inputs': f['inputs'], 'what': 'reachability twin witness (expected to hold on the real code)'}
        safe = ''.join(ch if ch.isalnum() or ch in '-_.' else '_' for ch in cid)[:120]
        h = hashlib.sha256(cid.encode()).hexdigest()[:8]
        rp = os.path.join(OUT, 'replays', prop, 'twins', f"{safe}-{h}.json")
        with open(rp, 'w') as fh:
            json.dump(rec, fh, indent=1)
        rc, o = replay_subprocess(rp)
        return c, r, rc, o, rp
    twin_replayed = 0
    if chosen:
        from concurrent.futures import ThreadPoolExecutor
        with ThreadPoolExecutor(max_workers=jobs) as ex:
            for c, r, rc, o, rp in ex.map(_twin_replay, chosen):
                twin_replayed += 1
                if rc != 0:
                    harness_errors.append((c, r, f"twin witness (a path the symbolic run reports as holding) does not hold/run on the real code (replay rc={rc}): {rp}\n{o[-600:]}"))
                else:
                    os.remove(rp)

    # (e) evidence
    tot_paths = sum(r.get('paths', 0) for r in results)
    tot_reached = sum(r.get('reached', 0) for r in results)
    sq = {'sat': 0, 'unsat': 0, 'unknown': 0, 'time': 0.0}
    for r in results:
        for k in sq:
            sq[k] += (r.get('solver') or {}).get(k, 0)
    alldrives = sorted(set(d for c in conds for d in c.drives))
    samples = []
    for c, r in zip(conds, results):
        if r.get('witness') is not None and len(samples) < 12:
            samples.append({'condition': c.id, 'bounds': c.bounds, 'one_model_of_a_confirmed_path': r['witness']})
    if not samples:
        samples = [{'condition': c.id, 'bounds': c.bounds} for c in conds[:3]] or [{'note': 'no conditions ran'}]
    known_hits = {}
    for r in results:
        for k, v in (r.get('known_hits') or {}).items():
            known_hits[k] = known_hits.get(k, 0) + v
    real_conds = [c for c in conds if not c.twin]
    ev = {
        'property_id': prop, 'tier': tier, 'seed': seed, 'level': 'other',
        'coverage': {
            'explanation': ("bounded symbolic execution of the real /repo/bitstring source (CrossHair 0.0.110 per-path engine over z3) "
                            "on top of a bit-vector model of the bitarray C extension; each condition is decided by the solver for every "
                            "value inside its stated bounds (status confirmed = path tree exhausted, no unknown path, no failing path); "
                            "nothing is claimed outside the bounds"),
            'evaluations': max(tot_paths, 1),
            'distinct_nontrivial': tot_reached,
            'rule': ("evaluations = symbolic paths executed (each path stands for the whole set of inputs satisfying its path condition); "
                     "distinct_nontrivial = paths that reached the harness's final assertion (not dropped by a bound filter, not aborted); "
                     "paths are distinct by construction of the decision tree"),
            'samples': samples,
            'obligations': len(real_conds),
            'discharged': len(confirmed),
            'exhaustive': len(confirmed) == len(real_conds) and not violations and not harness_errors,
            'inconclusive': [{'condition': c.id, 'status': r['status'], 'paths': r.get('paths'), 'unknown_paths': r.get('unknown'),
                              'reasons': r.get('unknown_reasons')} for c, r in inconclusive],
            'conditions': [{'id': c.id, 'bounds': c.bounds, 'status': r['status'], 'paths': r.get('paths'), 'paths_reaching_assertion': r.get('reached'),
                            'paths_filtered': r.get('ignored'), 'unknown_paths': r.get('unknown'), 'solver': r.get('solver'),
                            'cpu_s': r.get('cpu_s'), 'known_hits': r.get('known_hits'), 'twin': c.twin} for c, r in zip(conds, results)],
            'functions_encoded': src_hashes(alldrives),
            'solver_queries': {k: (round(v, 2) if isinstance(v, float) else v) for k, v in sq.items()},
            'solver_time_s': round(sq['time'], 2),
            'reachability_twins': {'refuted_as_required': twins_ok, 'not_refuted': twins_bad, 'not_applicable_condition_not_holding': twins_na,
                                   'witnesses_replayed_on_real_code_and_holding': twin_replayed - sum(1 for c, r, w in harness_errors if c.twin and 'twin witness' in w)},
            'model_validation': model_line,
            'known_findings': known_report,
            'known_finding_hits_during_exploration': known_hits,
            'fixed_entries': fixed,
            'violations': [{'condition': c.id, 'replay': rp} for c, r, rp, o in violations],
            'harness_errors': [{'condition': c.id, 'why': why[:600]} for c, r, why in harness_errors],
        },
        'assumptions': list(env.STUBS) + list(getattr(mod, 'ASSUMPTIONS', [])),
        'wall_s': round(time.time() - t0, 2),
        'violations': len(violations),
    }
    # a run restricted with --only covers part of the property: its evidence must not replace the full file
    partial = bool(only) or os.environ.get('VERIF_TWINS_ONLY') == '1'
    evdir = os.path.join(OUT, 'evidence') if not partial else os.path.join(OUT, '.work', 'partial-evidence')
    os.makedirs(evdir, exist_ok=True)
    with open(os.path.join(evdir, f'{prop}.json'), 'w') as fh:
        json.dump(ev, fh, indent=1)

    # (f) report
    print(f"  confirmed {len(confirmed)}/{len(real_conds)}  inconclusive {len(inconclusive)}  violations {len(violations)}  "
          f"harness-errors {len(harness_errors)}  paths {tot_paths}  solver {sq['sat'] + sq['unsat'] + sq['unknown']} queries {sq['time']:.1f}s  wall {time.time() - t0:.1f}s")
    for c, r in inconclusive:
        print(f"  INCONCLUSIVE {c.id}: {r['status']} paths={r.get('paths')} unknown={r.get('unknown')} {r.get('unknown_reasons')}")
    for c, r, why in harness_errors:
        print(f"HARNESS-ERROR property={prop} condition={c.id}: {why}")
    for c, r, rp, o in violations:
        print(o.rstrip())
        print(f"VIOLATION property={prop} replay={os.path.join(OUT, rp)}")
    try:
        import shutil
        shutil.rmtree(engine.WORK, ignore_errors=True)
    except Exception:  # noqa: BLE001
        pass
    if violations:
        return 1
    if harness_errors:
        return 3
    return 0


def main():
    ap = argparse.ArgumentParser()
    ap.add_argument('prop', nargs='?')
    ap.add_argument('--tier', default=os.environ.get('VERIF_TIER', 'quick'), choices=['quick', 'thorough'])
    ap.add_argument('--setup', action='store_true')
    ap.add_argument('--replay')
    ap.add_argument('--jobs', type=int, default=int(os.environ.get('VERIF_JOBS', os.cpu_count() or 4)))
    ap.add_argument('--only')
    args = ap.parse_args()
    reexec_in_venv()
    sys.path.insert(0, VERIF)
    seed = int(os.environ.get('VERIF_SEED', '0') or 0)
    if args.setup:
        sys.exit(cmd_setup())
    if args.replay:
        try:
            rc = cmd_replay(args.replay)
        except BaseException as e:  # noqa: BLE001  a crash while replaying is a harness error, never a verdict
            import traceback
            traceback.print_exc()
            print(f"HARNESS-ERROR replay of {args.replay} crashed: {type(e).__name__}")
            rc = 3
        sys.exit(rc)
    if not args.prop:
        ap.error("property id required")
    sys.exit(cmd_check(args.prop.upper(), args.tier, args.jobs, args.only, seed))


if __name__ == '__main__':
    main()
