"""Definitions of the 8/6/4-bit float formats, written from the format specifications
(doc/exotic_floats.rst, the OCP MX v1.0 spec and the IEEE P3109 draft), NOT from the tables:

  decode_py / encode_py : exact-rational Python model (used on replay and to validate the z3 encoding)
  decode_z3 / round_z3  : the same definitions as z3 floating-point terms (used for the table obligations)

encode = the code whose decoded value is the round-to-nearest-even (unbounded exponent) of the
half-precision input, then the documented overflow rule of the format / mxfp_overflow mode.
"""
from __future__ import annotations

import math
from fractions import Fraction

FORMATS = {
    'p4binary': dict(eb=4, mb=3, bias=8, kind='binary8', bits=8),
    'p3binary': dict(eb=5, mb=2, bias=16, kind='binary8', bits=8),
    'e4m3mxfp': dict(eb=4, mb=3, bias=7, kind='e4m3', bits=8),
    'e5m2mxfp': dict(eb=5, mb=2, bias=15, kind='e5m2', bits=8),
    'e3m2mxfp': dict(eb=3, mb=2, bias=3, kind='small', bits=6),
    'e2m3mxfp': dict(eb=2, mb=3, bias=1, kind='small', bits=6),
    'e2m1mxfp': dict(eb=2, mb=1, bias=1, kind='small', bits=4),
}


def fields(fmt, code):
    F = FORMATS[fmt]
    s = (code >> (F['eb'] + F['mb'])) & 1
    e = (code >> F['mb']) & ((1 << F['eb']) - 1)
    m = code & ((1 << F['mb']) - 1)
    return s, e, m


def decode_py(fmt, code):
    """value of a code: Fraction, or 'nan', 'inf', '-inf'; zero is returned as (0, sign)"""
    F = FORMATS[fmt]
    s, e, m = fields(fmt, code)
    k = F['kind']
    top = (1 << F['eb']) - 1
    if k == 'binary8':
        if code == 0x80:
            return 'nan'
        if code == 0x7f:
            return 'inf'
        if code == 0xff:
            return '-inf'
    elif k == 'e4m3':
        if e == top and m == (1 << F['mb']) - 1:
            return 'nan'
    elif k == 'e5m2':
        if e == top:
            return ('-inf' if s else 'inf') if m == 0 else 'nan'
    if e == 0:
        mag = Fraction(m, 1 << F['mb']) * Fraction(2) ** (1 - F['bias'])
    else:
        mag = (1 + Fraction(m, 1 << F['mb'])) * Fraction(2) ** (e - F['bias'])
    if mag == 0:
        return (0, s)
    return -mag if s else mag


def finite_codes(fmt):
    out = []
    for c in range(1 << FORMATS[fmt]['bits']):
        v = decode_py(fmt, c)
        if isinstance(v, Fraction) or isinstance(v, tuple):
            out.append(c)
    return out


def max_finite(fmt):
    return max(decode_py(fmt, c) for c in finite_codes(fmt) if isinstance(decode_py(fmt, c), Fraction))


def overflow_code(fmt, negative, mode):
    """documented result for a value that is out of range after rounding (and for infinities)"""
    k = FORMATS[fmt]['kind']
    if k == 'binary8':
        return 0xff if negative else 0x7f
    if k == 'e4m3':
        if mode == 'saturate':
            return 0xfe if negative else 0x7e
        return 0xff
    if k == 'e5m2':
        if mode == 'saturate':
            return 0xfb if negative else 0x7b
        return 0xfc if negative else 0x7c
    nb = FORMATS[fmt]['bits']
    return ((1 << nb) - 1) if negative else ((1 << (nb - 1)) - 1)


def nan_code(fmt):
    k = FORMATS[fmt]['kind']
    if k == 'binary8':
        return 0x80
    if k in ('e4m3', 'e5m2'):
        return 0xff
    return None  # no NaN: the library rejects NaN before the table is consulted


def f16_value(h):
    """half-precision bit pattern -> Fraction | 'nan' | 'inf' | '-inf' | (0, sign)"""
    s, e, m = (h >> 15) & 1, (h >> 10) & 31, h & 1023
    if e == 31:
        return 'nan' if m else ('-inf' if s else 'inf')
    mag = Fraction(m, 1024) * Fraction(2) ** -14 if e == 0 else (1 + Fraction(m, 1024)) * Fraction(2) ** (e - 15)
    if mag == 0:
        return (0, s)
    return -mag if s else mag


def encode_py(fmt, x, mode='saturate'):
    """x as returned by f16_value (or any Fraction). Returns the code."""
    F = FORMATS[fmt]
    has_neg_zero = F['kind'] != 'binary8'
    if x == 'nan':
        return nan_code(fmt)
    if x in ('inf', '-inf'):
        return overflow_code(fmt, x == '-inf', mode)
    if isinstance(x, tuple):
        return (1 << (F['bits'] - 1)) if (x[1] and has_neg_zero) else 0
    neg = x < 0
    a = -x if neg else x
    emin = 1 - F['bias']
    e = math.floor(math.log2(a))
    while Fraction(2) ** e > a:
        e -= 1
    while Fraction(2) ** (e + 1) <= a:
        e += 1
    e = max(e, emin)
    q = Fraction(2) ** (e - F['mb'])
    n = a / q
    fl = n.numerator // n.denominator
    rem = n - fl
    if rem > Fraction(1, 2) or (rem == Fraction(1, 2) and fl % 2 == 1):
        fl += 1
    r = fl * q
    if r > max_finite(fmt):
        return overflow_code(fmt, neg, mode)
    if r == 0:
        return (1 << (F['bits'] - 1)) if (neg and has_neg_zero) else 0
    for c in finite_codes(fmt):
        v = decode_py(fmt, c)
        if isinstance(v, Fraction) and v == (-r if neg else r):
            return c
    raise AssertionError((fmt, x, r))


# ------------------------------------------------------------------------------------ z3 side
def z3_defs():
    import z3
    return z3


def table_tree(z3, idx, table, width_out):
    """balanced If tree for table[idx]; runs of equal entries are merged. idx: BitVec; table: sequence of ints"""
    n = len(table)
    w = idx.size()

    def build(lo, hi):
        # entries lo..hi-1
        first = table[lo]
        if all(table[i] == first for i in range(lo, hi)):
            return z3.BitVecVal(first, width_out)
        mid = (lo + hi) // 2
        return z3.If(z3.ULT(idx, z3.BitVecVal(mid, w)), build(lo, mid), build(mid, hi))
    return build(0, n)


def int_table_tree(z3, idx, table):
    """as table_tree but in the integer domain: idx is a z3 Int term, leaves are Int constants"""
    def build(lo, hi):
        first = table[lo]
        if all(table[i] == first for i in range(lo, hi)):
            return z3.IntVal(first)
        mid = (lo + hi) // 2
        return z3.If(idx < mid, build(lo, mid), build(mid, hi))
    return build(0, len(table))


def float_table_tree(z3, idx, table):
    """If tree over a table of python floats -> Float32 term"""
    F32 = z3.Float32()
    w = idx.size()

    def val(f):
        if f != f:
            return z3.fpNaN(F32)
        return z3.FPVal(f, F32)

    def build(lo, hi):
        if hi - lo == 1:
            return val(table[lo])
        mid = (lo + hi) // 2
        return z3.If(z3.ULT(idx, z3.BitVecVal(mid, w)), build(lo, mid), build(mid, hi))
    return build(0, len(table))


def decode_z3(z3, fmt, code):
    """value of `code` (BitVec of the format's width) per the format definition, as a Float32 term (exact)"""
    F = FORMATS[fmt]
    eb, mb, bias, nb = F['eb'], F['mb'], F['bias'], F['bits']
    F32 = z3.Float32()
    s = z3.Extract(nb - 1, nb - 1, code)
    e = z3.Extract(nb - 2, mb, code)
    m = z3.Extract(mb - 1, 0, code)
    # significand as an integer (hidden bit added for normal numbers), scaled by 2^(max(e,1) - bias - mb)
    sig = z3.If(e == 0, z3.ZeroExt(1, m), z3.Concat(z3.BitVecVal(1, 1), m))
    sigf = z3.fpToFPUnsigned(z3.RNE(), z3.ZeroExt(8, sig), F32)
    scale = z3.FPVal(2.0 ** (1 - bias - mb), F32)
    for ev in range(1, 1 << eb):
        scale = z3.If(e == ev, z3.FPVal(2.0 ** (ev - bias - mb), F32), scale)
    mag = z3.fpMul(z3.RNE(), sigf, scale)
    val = z3.If(s == 1, z3.fpNeg(mag), mag)
    k = F['kind']
    top = (1 << eb) - 1
    if k == 'binary8':
        val = z3.If(code == 0x80, z3.fpNaN(F32), z3.If(code == 0x7f, z3.fpPlusInfinity(F32), z3.If(code == 0xff, z3.fpMinusInfinity(F32), val)))
    elif k == 'e4m3':
        val = z3.If(z3.And(e == top, m == (1 << mb) - 1), z3.fpNaN(F32), val)
    elif k == 'e5m2':
        val = z3.If(e == top, z3.If(m == 0, z3.If(s == 1, z3.fpMinusInfinity(F32), z3.fpPlusInfinity(F32)), z3.fpNaN(F32)), val)
    return val


def round_z3(z3, fmt, h, mode):
    """documented conversion result for the half-precision input with bit pattern h (BitVec 16), as a Float32 term,
    together with a Bool saying whether NaN is not representable (small formats)."""
    F = FORMATS[fmt]
    eb, mb, bias = F['eb'], F['mb'], F['bias']
    F32 = z3.Float32()
    x = z3.fpToFP(z3.RNE(), z3.fpBVToFP(h, z3.Float16()), F32)     # exact widening
    emin = 1 - bias
    # normal range: RNE to mb+1 significant bits with an (effectively) unbounded exponent
    if mb + 1 >= 3:
        wide = z3.FPSort(8, mb + 1)
        rn = z3.fpToFP(z3.RNE(), z3.fpToFP(z3.RNE(), x, wide), F32)
    else:
        # z3 has no FP sort with fewer than 3 significand bits: round binade by binade, the quantum in [2^E, 2^(E+1)) is 2^(E-mb)
        rn = x
        for E in range(emin, 17):
            inb = z3.And(z3.fpGEQ(z3.fpAbs(x), z3.FPVal(2.0 ** E, F32)), z3.fpLT(z3.fpAbs(x), z3.FPVal(2.0 ** (E + 1), F32)))
            q = 2.0 ** (E - mb)
            rb = z3.fpMul(z3.RNE(), z3.fpRoundToIntegral(z3.RNE(), z3.fpMul(z3.RNE(), x, z3.FPVal(1.0 / q, F32))), z3.FPVal(q, F32))
            rn = z3.If(inb, rb, rn)
    # subnormal range of the target: fixed quantum 2^(emin - mb)
    k = mb - emin
    rs = z3.fpMul(z3.RNE(), z3.fpRoundToIntegral(z3.RNE(), z3.fpMul(z3.RNE(), x, z3.FPVal(2.0 ** k, F32))), z3.FPVal(2.0 ** -k, F32))
    ax = z3.fpAbs(x)
    r = z3.If(z3.fpLT(ax, z3.FPVal(2.0 ** emin, F32)), rs, rn)
    mx = float(max_finite(fmt))
    neg = z3.fpIsNegative(x)
    over = z3.Or(z3.fpGT(z3.fpAbs(r), z3.FPVal(mx, F32)), z3.fpIsInf(x))
    kind = F['kind']
    if kind == 'binary8':
        ov = z3.If(neg, z3.fpMinusInfinity(F32), z3.fpPlusInfinity(F32))
    elif kind == 'e4m3':
        ov = z3.If(neg, z3.FPVal(-mx, F32), z3.FPVal(mx, F32)) if mode == 'saturate' else z3.fpNaN(F32)
    elif kind == 'e5m2':
        ov = z3.If(neg, z3.FPVal(-mx, F32), z3.FPVal(mx, F32)) if mode == 'saturate' else z3.If(neg, z3.fpMinusInfinity(F32), z3.fpPlusInfinity(F32))
    else:
        ov = z3.If(neg, z3.FPVal(-mx, F32), z3.FPVal(mx, F32))
    r = z3.If(over, ov, r)
    if kind == 'binary8':
        # a single zero: negative values that round to zero give +0
        r = z3.If(z3.fpIsZero(r), z3.FPVal(0.0, F32), r)
    r = z3.If(z3.fpIsNaN(x), z3.fpNaN(F32), r)
    return r
