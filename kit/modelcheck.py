"""Small-scope differential validation of the sbx bitarray model against the real C extension.

Run as:  python -m kit.modelcheck [--level full|smoke]
Both implementations are loaded in one process: the real one as `bitarray`, the model under the
alias `sbxba`.  Every operation is applied to the same inputs on both; result value, resulting
content and exception class must agree.  Exit 0 iff zero disagreements.
"""
from __future__ import annotations

import importlib.util
import itertools
import os
import sys
import time

HERE = os.path.dirname(os.path.dirname(os.path.abspath(__file__)))


def load_model():
    path = os.path.join(HERE, 'sbx', 'bitarray')
    spec = importlib.util.spec_from_file_location('sbxba', os.path.join(path, '__init__.py'),
                                                  submodule_search_locations=[path])
    mod = importlib.util.module_from_spec(spec)
    sys.modules['sbxba'] = mod
    spec.loader.exec_module(mod)
    return mod


def norm(x):
    """Normalise a result for comparison (bitarray of either kind -> ('ba', '0101'))."""
    tn = type(x).__name__
    if tn in ('bitarray', 'frozenbitarray'):
        return ('ba', x.to01())
    if isinstance(x, (list, tuple)):
        return [norm(i) for i in x]
    if hasattr(x, '__next__'):
        return [norm(i) for i in x]
    if isinstance(x, bool):
        return int(x)
    if x is NotImplemented:
        return 'NotImplemented'
    return x


def run(fn):
    try:
        return ('ok', norm(fn()))
    except NotImplementedError:
        raise
    except Exception as e:  # noqa: BLE001
        return ('exc', type(e).__name__)


class Diff:
    def __init__(self):
        self.n = 0
        self.bad = []
        self.groups = {}

    def cmp(self, label, f_real, f_model):
        self.n += 1
        a, b = run(f_real), run(f_model)
        if a != b:
            key = label[0] if isinstance(label, tuple) else label
            if isinstance(key, tuple):
                key = key[0]
            self.groups[key] = self.groups.get(key, 0) + 1
            if self.groups[key] <= 3:
                self.bad.append((label, a, b))
            else:
                self.bad.append(None)


def all_bits(maxlen):
    for n in range(maxlen + 1):
        for v in range(1 << n):
            yield format(v, f'0{n}b') if n else ''


def main(level='full'):
    import bitarray as R
    import bitarray.util as RU
    if getattr(R, '_SBX_MODEL', False):
        raise SystemExit("modelcheck: the real bitarray extension is shadowed by the model on sys.path")
    M = load_model()
    MU = M.util
    d = Diff()
    t0 = time.time()
    full = level == 'full'
    ML = 5 if full else 4
    rng = range(-7, 8) if full else range(-5, 6)
    idx = [None] + list(rng)
    contents = list(all_bits(ML))
    small = list(all_bits(3))

    def pair(s):
        return R.bitarray(s), M.bitarray(s)

    # --- constructors
    for init in [None, 0, 1, 5, '', '01 1_0', '012', [0, 1, 1], [0, 2], (True, False), b'ab', 1.5, -1, True]:
        d.cmp(('ctor', init), lambda: R.bitarray(init), lambda: M.bitarray(init))
    for s in small:
        d.cmp(('ctor-ba', s), lambda: R.bitarray(R.bitarray(s)), lambda: M.bitarray(M.bitarray(s)))
    for b in [b'', b'\x01', b'\x80\xff']:
        d.cmp(('buffer', b), lambda: R.bitarray(buffer=b), lambda: M.bitarray(buffer=b))

        def ro(mod):
            a = mod.bitarray(buffer=b)
            a[0:1] = mod.bitarray('1')
            return a
        d.cmp(('buffer-ro', b), lambda: ro(R), lambda: ro(M))

    # --- getitem
    for s in contents:
        a, m = pair(s)
        d.cmp(('len', s), lambda: len(a), lambda: len(m))
        for i in list(rng) + [True, 1.5, 'x']:
            d.cmp(('getitem', s, i), lambda: a[i], lambda: m[i])
        for st, sp, se in itertools.product(idx, idx, idx):
            k = slice(st, sp, se)
            d.cmp(('getslice', s, k), lambda: a[k], lambda: m[k])
        d.cmp(('iter', s), lambda: list(a), lambda: list(m))
        d.cmp(('to01', s), lambda: a.to01(), lambda: m.to01())
        d.cmp(('tobytes', s), lambda: a.tobytes(), lambda: m.tobytes())
        d.cmp(('tolist', s), lambda: a.tolist(), lambda: m.tolist())
        d.cmp(('any', s), lambda: a.any(), lambda: m.any())
        d.cmp(('all', s), lambda: a.all(), lambda: m.all())
        for v in (0, 1, 2, True):
            d.cmp(('count', s, v), lambda: a.count(v), lambda: m.count(v))
        d.cmp(('ba2int', s), lambda: RU.ba2int(a), lambda: MU.ba2int(m))
        d.cmp(('ba2int-s', s), lambda: RU.ba2int(a, signed=True), lambda: MU.ba2int(m, signed=True))
        d.cmp(('ba2hex', s), lambda: RU.ba2hex(a), lambda: MU.ba2hex(m))
        d.cmp(('ba2oct', s), lambda: RU.ba2base(8, a), lambda: MU.ba2base(8, m))
        d.cmp(('invert~', s), lambda: ~a, lambda: ~m)
        d.cmp(('eq-other', s), lambda: a == 3, lambda: m == 3)

    # --- mutators (fresh copies each time)
    def mut(label, s, f):
        def go(mod):
            x = mod.bitarray(s)
            r = f(mod, x)
            return (r, x)
        d.cmp((label, s), lambda: go(R), lambda: go(M))

    mcontents = list(all_bits(4 if full else 3))
    midx = [None] + list(range(-6, 7) if full else range(-4, 5))
    for s in mcontents:
        for i in list(range(-6, 7)):
            for v in (0, 1, 2, True, -1):
                mut(('setitem', i, v), s, lambda mod, x: x.__setitem__(i, v))
            mut(('delitem', i), s, lambda mod, x: x.__delitem__(i))
            mut(('invert', i), s, lambda mod, x: x.invert(i))
            mut(('insert', i), s, lambda mod, x: x.insert(i, 1))
            mut(('pop', i), s, lambda mod, x: x.pop(i))
        mut('invert-all', s, lambda mod, x: x.invert())
        mut('reverse', s, lambda mod, x: x.reverse())
        mut('clear', s, lambda mod, x: x.clear())
        mut('copy', s, lambda mod, x: x.copy())
        mut('fill', s, lambda mod, x: x.fill())
        for v in (0, 1, 2):
            mut(('setall', v), s, lambda mod, x: x.setall(v))
            mut(('append', v), s, lambda mod, x: x.append(v))
        mut('frombytes', s, lambda mod, x: x.frombytes(b'\xa5\x01'))
        mut('frombytes-ba', s, lambda mod, x: x.frombytes(bytearray(b'\x0f')))
        mut('frombytes-str', s, lambda mod, x: x.frombytes('a'))
        for k in (-1, 0, 1, 2, 3):
            mut(('mul', k), s, lambda mod, x: x * k)
            mut(('lshift', k), s, lambda mod, x: x << k)
            mut(('rshift', k), s, lambda mod, x: x >> k)
        for st, sp in itertools.product(midx, midx):
            for se in (None, 1, 2, -1, -2, 3):
                k = slice(st, sp, se)
                mut(('delslice', k), s, lambda mod, x: x.__delitem__(k))
                for v in (0, 1, 2):
                    mut(('setslice-int', k, v), s, lambda mod, x: x.__setitem__(k, v))
                for t in small:
                    mut(('setslice', k, t), s, lambda mod, x: x.__setitem__(k, mod.bitarray(t)))
        mut('setslice-self', s, lambda mod, x: x.__setitem__(slice(1, 2), x))
        mut('setslice-bad', s, lambda mod, x: x.__setitem__(slice(1, 2), 'x'))
        for t in small:
            mut(('iadd', t), s, lambda mod, x: x.__iadd__(mod.bitarray(t)))
            mut(('add', t), s, lambda mod, x: x + mod.bitarray(t))
            mut(('extend-str', t), s, lambda mod, x: x.extend(t))
            for op in ('__and__', '__or__', '__xor__', '__iand__', '__ior__', '__ixor__', '__eq__', '__ne__'):
                mut((op, t), s, lambda mod, x: getattr(x, op)(mod.bitarray(t)))
        for t in mcontents:
            if len(t) == len(s):
                for op in ('__and__', '__or__', '__xor__', '__iand__', '__ior__', '__ixor__', '__eq__', '__ne__'):
                    mut((op, t), s, lambda mod, x: getattr(x, op)(mod.bitarray(t)))
        mut('iadd-self', s, lambda mod, x: x.__iadd__(x))
        mut('iadd-int', s, lambda mod, x: x.__iadd__(3))
        mut('iadd-list', s, lambda mod, x: x.__iadd__([1, 0]))

    # --- search
    for s in contents:
        a, m = pair(s)
        for t in small:
            if not t:
                continue
            ra, ma = R.bitarray(t), M.bitarray(t)
            for st, sp in itertools.product([0] + list(rng), idx):
                for right in (False, True):
                    d.cmp(('find', s, t, st, sp, right), lambda: a.find(ra, st, sp, right=right),
                          lambda: m.find(ma, st, sp, right=right))
                    d.cmp(('search', s, t, st, sp, right), lambda: list(a.search(ra, st, sp, right=right)),
                          lambda: list(m.search(ma, st, sp, right=right)))
        d.cmp(('find-default', s), lambda: a.find(R.bitarray('1')), lambda: m.find(M.bitarray('1')))
        d.cmp(('find-int', s), lambda: a.find(1), lambda: m.find(1))
        d.cmp(('contains', s), lambda: R.bitarray('10') in a, lambda: M.bitarray('10') in m)

    # --- util
    for length in [None, -1, 0, 1, 2, 3, 5, 8]:
        for i in range(-40, 41):
            for signed in (False, True):
                d.cmp(('int2ba', i, length, signed), lambda: RU.int2ba(i, length=length, endian='big', signed=signed),
                      lambda: MU.int2ba(i, length=length, endian='big', signed=signed))
    for big in (2 ** 64, 2 ** 64 - 1, -2 ** 63, -2 ** 63 - 1, 2 ** 63):
        for signed in (False, True):
            d.cmp(('int2ba-big', big, signed), lambda: RU.int2ba(big, length=64, endian='big', signed=signed),
                  lambda: MU.int2ba(big, length=64, endian='big', signed=signed))
    d.cmp('int2ba-float', lambda: RU.int2ba(1.0, length=4), lambda: MU.int2ba(1.0, length=4))
    alpha = ['0', '7', '8', 'a', 'F', 'g', ' ', '_', '\n', 'x', '\xe9']
    for k in range(0, 4 if full else 3):
        for tup in itertools.product(alpha, repeat=k):
            t = ''.join(tup)
            d.cmp(('hex2ba', t), lambda: RU.hex2ba(t), lambda: MU.hex2ba(t))
            d.cmp(('oct2ba', t), lambda: RU.base2ba(8, t), lambda: MU.base2ba(8, t))
    for t in ['0101', '01 01', '0_1', '2', '0b1', '\t1']:
        d.cmp(('parse01', t), lambda: R.bitarray(t), lambda: M.bitarray(t))

    # --- Python ints that do not fit Py_ssize_t
    for s in ('', '0110'):
        for B in (2 ** 63, -2 ** 63 - 1, 2 ** 63 - 1, -2 ** 63, 2 ** 200):
            a, m = pair(s)
            d.cmp(('big-lshift', s, B), lambda: a << B, lambda: m << B)
            d.cmp(('big-rshift', s, B), lambda: a >> B, lambda: m >> B)
            d.cmp(('big-ilshift', s, B), lambda: R.bitarray(s).__ilshift__(B), lambda: M.bitarray(s).__ilshift__(B))
            if B < 0 or not s:
                d.cmp(('big-mul', s, B), lambda: a * B, lambda: m * B)
            d.cmp(('big-getitem', s, B), lambda: a[B], lambda: m[B])
            d.cmp(('big-slice', s, B), lambda: a[B:], lambda: m[B:])
            d.cmp(('big-slice2', s, B), lambda: a[:B:2], lambda: m[:B:2])
            d.cmp(('big-find', s, B), lambda: a.find(1, B), lambda: m.find(1, B))
            d.cmp(('big-find2', s, B), lambda: a.find(1, 0, B), lambda: m.find(1, 0, B))

            def ins(mod):
                x = mod.bitarray(s)
                x.insert(B, 1)
                return x
            d.cmp(('big-insert', s, B), lambda: ins(R), lambda: ins(M))

            def pp_(mod):
                x = mod.bitarray(s)
                return x.pop(B), x
            d.cmp(('big-pop', s, B), lambda: pp_(R), lambda: pp_(M))
    for B in (2 ** 63, 2 ** 100, -2 ** 63 - 1):
        d.cmp(('big-ctor', B), lambda: R.bitarray(B), lambda: M.bitarray(B))

    # --- little-endian bitarrays (a user can hand one to bitstring): conversions, propagation of the endianness, mixing
    def en(x):
        return (x.endian, x.to01()) if type(x).__name__ in ('bitarray', 'frozenbitarray') else x
    le_contents = list(all_bits(4)) + ['10110010', '0000000100110111', '101100101', '1' * 12, '00000001001101110']
    for s in le_contents:
        for e1 in ('little', 'big'):
            a, m = R.bitarray(s, endian=e1), M.bitarray(s, endian=e1)
            d.cmp(('le-ctor', s, e1), lambda: en(a), lambda: en(m))
            d.cmp(('le-copy', s, e1), lambda: en(R.bitarray(a)), lambda: en(M.bitarray(m)))
            d.cmp(('le-frozen', s, e1), lambda: en(R.frozenbitarray(a)), lambda: en(M.frozenbitarray(m)))
            for e2 in ('little', 'big', 'middle'):
                d.cmp(('le-convert', s, e1, e2), lambda: en(R.bitarray(a, endian=e2)), lambda: en(M.bitarray(m, endian=e2)))
            d.cmp(('le-tobytes', s, e1), lambda: a.tobytes(), lambda: m.tobytes())
            d.cmp(('le-ba2int', s, e1), lambda: RU.ba2int(a), lambda: MU.ba2int(m))
            d.cmp(('le-ba2int-s', s, e1), lambda: RU.ba2int(a, signed=True), lambda: MU.ba2int(m, signed=True))
            d.cmp(('le-ba2hex', s, e1), lambda: RU.ba2hex(a), lambda: MU.ba2hex(m))
            d.cmp(('le-ba2oct', s, e1), lambda: RU.ba2base(8, a), lambda: MU.ba2base(8, m))
            d.cmp(('le-slice', s, e1), lambda: en(a[1:]), lambda: en(m[1:]))
            d.cmp(('le-stepslice', s, e1), lambda: en(a[::-1]), lambda: en(m[::-1]))
            d.cmp(('le-invert', s, e1), lambda: en(~a), lambda: en(~m))
            d.cmp(('le-mul', s, e1), lambda: en(a * 2), lambda: en(m * 2))
            d.cmp(('le-shift', s, e1), lambda: en(a << 1) if s else None, lambda: en(m << 1) if s else None)
            d.cmp(('le-copy()', s, e1), lambda: en(a.copy()), lambda: en(m.copy()))
            d.cmp(('le-find', s, e1), lambda: a.find(R.bitarray('1')), lambda: m.find(M.bitarray('1')))

            def fb(mod, x):
                y = mod.bitarray(x)
                y.frombytes(b'\x01\xa0')
                return en(y)
            d.cmp(('le-frombytes', s, e1), lambda: fb(R, a), lambda: fb(M, m))
            for t in ('', '1', '0110', s):
                for e2 in ('little', 'big'):
                    b2, m2 = R.bitarray(t, endian=e2), M.bitarray(t, endian=e2)
                    d.cmp(('le-add', s, e1, t, e2), lambda: en(a + b2), lambda: en(m + m2))
                    d.cmp(('le-eq', s, e1, t, e2), lambda: a == b2, lambda: m == m2)
                    d.cmp(('le-and', s, e1, t, e2), lambda: en(a & b2), lambda: en(m & m2))
                    d.cmp(('le-xor', s, e1, t, e2), lambda: en(a ^ b2), lambda: en(m ^ m2))

                    def ext(mod, x, y):
                        z = mod.bitarray(x)
                        z.extend(y)
                        return en(z)
                    d.cmp(('le-extend', s, e1, t, e2), lambda: ext(R, a, b2), lambda: ext(M, m, m2))

                    def ior(mod, x, y):
                        z = mod.bitarray(x)
                        z |= y
                        return en(z)
                    d.cmp(('le-ior', s, e1, t, e2), lambda: ior(R, a, b2), lambda: ior(M, m, m2))

                    def setsl(mod, x, y):
                        z = mod.bitarray(x)
                        z[0:1] = y
                        return en(z)
                    d.cmp(('le-setslice', s, e1, t, e2), lambda: setsl(R, a, b2), lambda: setsl(M, m, m2))
    for i in (0, 1, 5, 255, 256, -1, -128):
        for length in (None, 1, 8, 9):
            for signed in (False, True):
                d.cmp(('le-int2ba', i, length, signed), lambda: en(RU.int2ba(i, length=length, endian='little', signed=signed)),
                      lambda: en(MU.int2ba(i, length=length, endian='little', signed=signed)))
    for b in [b'', b'\x01', b'\x80\xff']:
        d.cmp(('le-buffer', b), lambda: en(R.bitarray(buffer=b, endian='little')), lambda: en(M.bitarray(buffer=b, endian='little')))
    d.cmp('le-zeros', lambda: en(RU.zeros(3, 'little')), lambda: en(MU.zeros(3, 'little')))

    bad = [b for b in d.bad if b]
    print(f"modelcheck[{level}]: {d.n} operations compared, {len(d.bad)} disagreements, {time.time() - t0:.1f}s")
    print('  groups:', d.groups)
    for b in bad[:60]:
        print("  DISAGREE", b)
    return d.n, len(d.bad)


if __name__ == '__main__':
    lvl = 'full'
    if '--level' in sys.argv:
        lvl = sys.argv[sys.argv.index('--level') + 1]
    n, bad = main(lvl)
    sys.exit(0 if bad == 0 else 3)
