"""File routes for symbolic runs.

Symbolic run: `open` and `mmap` inside bitstring.bits are replaced by fakes whose mapped buffer is a
(model) bitarray with symbolic content (contract assumed: mmap gives exactly the file's bytes;
write() appends).  Replay: a real temporary file with the recorded bytes and the real open/mmap.
"""
from __future__ import annotations

import io
import os
import tempfile

_FILES = {}          # fake name -> model bitarray holding the raw file bits (whole bytes)
_TMP = []


class _FakeSource:
    def __init__(self, name):
        self.name = name

    def fileno(self):
        return ('sbx-fd', self.name)

    def __enter__(self):
        return self

    def __exit__(self, *a):
        return False


class _FakeMap:
    def __init__(self, bits):
        self._sbx_bits = bits

    def __len__(self):
        return len(self._sbx_bits) // 8


class _FakeMmapModule:
    ACCESS_READ = 1

    @staticmethod
    def mmap(fileno, length, access=None):
        assert isinstance(fileno, tuple) and fileno[0] == 'sbx-fd'
        bits = _FILES[fileno[1]]
        if len(bits) == 0:
            raise ValueError("cannot mmap an empty file")
        return _FakeMap(bits)


def _fake_open(path, mode='r', *a, **k):
    name = str(path)
    if name not in _FILES:
        raise FileNotFoundError(2, 'No such file or directory', name)
    if 'r' not in mode or 'b' not in mode:
        raise ValueError("sbx fake open: only 'rb' is modelled")
    return _FakeSource(name)


class FakeReader(io.BufferedReader):
    """stands in for an open binary file handle (isinstance(x, io.BufferedReader) is what bitstring tests)"""

    def __init__(self, name):
        super().__init__(io.BytesIO(b''))
        self._sbx_name = name

    @property
    def name(self):
        return self._sbx_name


class FakeRandom(io.BufferedRandom):
    """an open binary file handle in an update mode ('r+b', 'w+b'): io.BufferedRandom, not io.BufferedReader"""

    def __init__(self, name):
        super().__init__(io.BytesIO(b''))
        self._sbx_name = name

    @property
    def name(self):
        return self._sbx_name


class FakeWriter:
    """file object handed to tofile(): collects what is written"""

    def __init__(self):
        self.chunks = []

    def write(self, b):
        self.chunks.append(b)
        return len(b)

    def bits(self):
        import bitarray
        r = bitarray.bitarray()
        for c in self.chunks:
            r.frombytes(c)
        return r


def install_fakes():
    """Cond.setup hook: route bitstring.bits' open/mmap to the fakes (symbolic runs only)"""
    import bitstring.bits as bb
    bb.open = _fake_open
    bb.mmap = _FakeMmapModule


def make_file(K, name, nbytes, concrete=None):
    """returns (filename to pass to bitstring, raw bits of the file as a bitarray); concrete = bytes for a file of fixed content"""
    import bitarray
    if concrete is not None:
        raw = bitarray.bitarray()
        raw.frombytes(bytes(concrete))
    else:
        raw = K.bits('file_' + name, 8 * nbytes)
    if K.symbolic:
        fn = f'/sbx/{name}.bin'
        _FILES[fn] = raw.copy()
        return fn, raw
    fd, fn = tempfile.mkstemp(prefix='verif_replay_', suffix='.bin')
    os.write(fd, raw.tobytes())
    os.close(fd)
    _TMP.append(fn)
    return fn, raw


def open_handle(K, fn, mode='rb'):
    if K.symbolic:
        return FakeReader(fn) if mode == 'rb' else FakeRandom(fn)
    return open(fn, mode)


def cleanup():
    for fn in _TMP:
        try:
            os.unlink(fn)
        except OSError:
            pass
    _TMP.clear()
    _FILES.clear()
