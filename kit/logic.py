"""Fork-free boolean combinators over Python bools / CrossHair symbolic bools.

`a and b` on symbolic bools forks the path; these build one z3 term instead, so that a whole
specification is decided by a single solver query.  In replay (concrete) mode they are plain Python.
"""
from __future__ import annotations

try:
    import z3
    from crosshair.tracers import NoTracing
    from crosshair.libimpl.builtinslib import SymbolicBool, SymbolicInt
    _HAVE = True
except ImportError:  # pragma: no cover
    _HAVE = False


def _term(x):
    """tracing off. python bool/int or symbolic -> z3 Bool term (or python bool)"""
    if _HAVE:
        if isinstance(x, SymbolicBool):
            return x.var
        if isinstance(x, SymbolicInt):
            return x.var != 0
    return bool(x)


def _wrap(t):
    if isinstance(t, bool):
        return t
    if z3.is_true(t):
        return True
    if z3.is_false(t):
        return False
    return SymbolicBool(t)


def And(*xs):
    if not _HAVE:
        return all(xs)
    with NoTracing():
        ts = [_term(x) for x in xs]
        if any(t is False for t in ts):
            return False
        ts = [t for t in ts if t is not True]
        if not ts:
            return True
        return _wrap(z3.And(*ts) if len(ts) > 1 else ts[0])


def Or(*xs):
    if not _HAVE:
        return any(xs)
    with NoTracing():
        ts = [_term(x) for x in xs]
        if any(t is True for t in ts):
            return True
        ts = [t for t in ts if t is not False]
        if not ts:
            return False
        return _wrap(z3.Or(*ts) if len(ts) > 1 else ts[0])


def Not(x):
    if not _HAVE:
        return not x
    with NoTracing():
        t = _term(x)
        if isinstance(t, bool):
            return not t
        return _wrap(z3.Not(t))


def Implies(a, b):
    return Or(Not(a), b)


def Iff(a, b):
    return And(Implies(a, b), Implies(b, a))
