"""Build bitstring objects directly in a given state, and read their state back.

Symbolic runs install a BitStore over a model bitarray without going through the constructors
(drive the unit, not the program).  Replays build the same state through the public constructor so
that a counterexample is confirmed against the public API.
"""
from __future__ import annotations


def classes():
    import bitstring
    return {'Bits': bitstring.Bits, 'BitArray': bitstring.BitArray,
            'ConstBitStream': bitstring.ConstBitStream, 'BitStream': bitstring.BitStream}


def is_stream(cls):
    import bitstring
    return issubclass(cls, bitstring.ConstBitStream)


def is_mutable(cls):
    import bitstring
    return issubclass(cls, bitstring.BitArray)


def mk(K, cls, ba, pos=None):
    """object of class `cls` holding a private copy of the bits of `ba` (and stream position pos)"""
    import bitstring
    from bitstring.bitstore import BitStore
    if not K.symbolic:
        kw = {}
        if is_stream(cls) and pos:
            kw['pos'] = pos
        if len(ba):
            return cls(bin=ba.to01(), **kw)
        return cls(**kw)
    x = object.__new__(cls)
    st = object.__new__(BitStore)
    st._bitarray = ba.copy()
    st.modified_length = None
    st.immutable = not is_mutable(cls)
    x._bitstore = st
    if is_stream(cls):
        x._pos = 0 if pos is None else pos
    return x


def raw(obj):
    """the bits of a bitstring object as a bitarray (logical length honoured), read from its store"""
    st = obj._bitstore
    ba = st._bitarray
    if st.modified_length is not None:
        return ba[:st.modified_length]
    return ba


def pos_of(obj):
    return obj._pos


def same(a, b):
    """content equality of two bitarrays as a single solver query (or plain bool)"""
    if len(a) != len(b):
        return False
    return a == b


class Outcome:
    __slots__ = ('ok', 'value', 'exc')

    def __init__(self, ok, value=None, exc=None):
        self.ok, self.value, self.exc = ok, value, exc

    def raised(self, *classes):
        return (not self.ok) and isinstance(self.exc, classes)

    @property
    def excname(self):
        return None if self.ok else type(self.exc).__name__


def call(f, *a, **k):
    """run f; any Exception is captured (CrossHair's control-flow exceptions are BaseException and pass through)"""
    try:
        return Outcome(True, f(*a, **k))
    except Exception as e:  # noqa: BLE001
        _reraise_if_proxy_artifact(e)
        return Outcome(False, None, e)


def _reraise_if_proxy_artifact(e):
    try:
        from crosshair.core import suspected_proxy_intolerance_exception
        from crosshair.util import CrosshairUnsupported
    except ImportError:
        return
    if suspected_proxy_intolerance_exception(e):
        raise CrosshairUnsupported("symbolic value reached code that cannot accept it: " + str(e)[:200])


DOCUMENTED = None


def documented_exception(e):
    """C20: the documented exception types"""
    import bitstring
    return isinstance(e, (ValueError, IndexError, TypeError, bitstring.Error, OSError))


def get_attr(obj, name):
    """getattr() that keeps CrossHair tracing on (the builtin is patched to run its target untraced, which realises symbolic values)"""
    try:
        return object.__getattribute__(obj, name)
    except AttributeError:
        ga = getattr(type(obj), '__getattr__', None)
        if ga is None:
            raise
        return ga(obj, name)


def set_attr(obj, name, value):
    """setattr() that keeps CrossHair tracing on"""
    type(obj).__setattr__(obj, name, value)
