"""Sequence-level reference semantics ("the str model" of the property file).

Written from the Python language reference / the bitstring documentation, on the tiny kernel both
back-ends share: len, 1-bit and contiguous slices, concatenation, ==, ba2int.  Nothing in here
calls a bitstring method.  Every function is cross-checked against CPython's own list/str
behaviour on concrete small scopes by oracle_selftest() (run by setup and at the start of checks).
"""
from __future__ import annotations


def _ba():
    import bitarray
    return bitarray.bitarray


def empty():
    return _ba()()


def zeros(n):
    b = _ba()(n)
    b.setall(0)
    return b


def ones(n):
    b = _ba()(n)
    b.setall(1)
    return b


def from01(s):
    return _ba()(s)


def clamp(x, lo, hi):
    if x < lo:
        return lo
    if x > hi:
        return hi
    return x


def slice_plan(n, start, stop, step):
    """(first index, step, count) of seq[start:stop:step] for a sequence of length n - Python reference 3.3.1/6.3.3.
    Formulated with clamps (differently from CPython's C code and from the model)."""
    if step is None:
        step = 1
    if step == 0:
        raise ValueError("slice step cannot be zero")
    if step > 0:
        lo, hi = 0, n
        s = lo if start is None else clamp(start + n if start < 0 else start, lo, hi)
        e = hi if stop is None else clamp(stop + n if stop < 0 else stop, lo, hi)
        cnt = (e - s + step - 1) // step
    else:
        lo, hi = -1, n - 1
        s = hi if start is None else clamp(start + n if start < 0 else start, lo, hi)
        e = lo if stop is None else clamp(stop + n if stop < 0 else stop, lo, hi)
        cnt = (s - e - step - 1) // (-step)
    if cnt < 0:
        cnt = 0
    return s, step, cnt


def ref_slice(K, x, start, stop, step):
    """x[start:stop:step] built bit by bit"""
    n = len(x)
    s, st, cnt = slice_plan(n, start, stop, step)
    cnt = K.conc(cnt)
    r = empty()
    for j in range(cnt):
        i = s + j * st
        r += x[i:i + 1]
    return r


def ref_concat(*parts):
    r = empty()
    for p in parts:
        r += p
    return r


def ref_repeat(x, k):
    r = empty()
    for _ in range(k):
        r += x
    return r


def ref_reverse(x):
    n = len(x)
    r = empty()
    for i in range(n - 1, -1, -1):
        r += x[i:i + 1]
    return r


def norm_range(n, start, end):
    """documented start/end convention of bitstring methods: None -> 0/len, negative counts from the end;
    valid iff 0 <= start <= end <= len"""
    s = 0 if start is None else (start + n if start < 0 else start)
    e = n if end is None else (end + n if end < 0 else end)
    return s, e, (0 <= s) and (s <= e) and (e <= n)


def occurs_at(data, pat, p):
    m = len(pat)
    return data[p:p + m] == pat


def oracle_selftest():
    """concrete cross-check of the reference functions against CPython sequences; returns #cases"""
    class CK:
        symbolic = False

        @staticmethod
        def conc(x):
            return x
    import itertools
    cases = 0
    idx = [None] + list(range(-7, 8))
    for n in range(0, 6):
        seq = list(range(n))
        for a, b, c in itertools.product(idx, idx, idx):
            if c == 0:
                continue
            s, st, cnt = slice_plan(n, a, b, c)
            got = [s + j * st for j in range(cnt)]
            assert got == seq[a:b:c], (n, a, b, c, got, seq[a:b:c])
            cases += 1
    for s in ['', '1', '10', '0110', '10011']:
        x = from01(s)
        assert ref_reverse(x).to01() == s[::-1]
        assert ref_repeat(x, 3).to01() == s * 3
        assert ref_slice(CK, x, 1, None, 2).to01() == s[1::2]
        cases += 3
    return cases
