"""Input kits handed to harness functions.

SymK  - inside a CrossHair path: every input is a fresh solver variable.
ConcK - replay: inputs come from a recorded counterexample; runs on the real C extension.

A harness is `fn(K) -> bool` (True: property held on this path).  It may call K.assume() to drop
paths outside its stated bound and must end in K.check()/K.fail()/True.
"""
from __future__ import annotations

import json
import math
import struct


class Violation(Exception):
    pass


class _Names(list):
    """the inputs of one path; two inputs with one name would overwrite each other in the replay record: that is a harness bug"""

    def append(self, item):
        for it in self:
            if it[0] == item[0]:
                from crosshair.util import CrossHairInternal
                raise CrossHairInternal(f"harness bug: two inputs are both named {item[0]!r}")
        list.append(self, item)


class KBase:
    symbolic = False

    def __init__(self, cond):
        self.cond = cond
        self.params = dict(cond.params)
        self.names = _Names()   # (name, kind, handle)
        self.notes = {}
        self.known_hits = []

    # -- result helpers
    def check(self, ok, what, **obs):
        if ok:
            return True
        return self.fail(what, **obs)

    def note(self, **kw):
        self.notes.update(kw)


# ===================================================================== symbolic
class SymK(KBase):
    symbolic = True

    def __init__(self, cond, space):
        super().__init__(cond)
        self.space = space
        self.failure = None
        self.reached = False

    def _u(self, name):
        return f"{name}_{self.space.uniq()}"

    def bits(self, name, n):
        """fresh n-bit content as a (model) bitarray"""
        import bitarray
        from crosshair.tracers import NoTracing
        import z3
        with NoTracing():
            v = z3.BitVec(self._u(name), n) if n > 0 else 0
            ba = bitarray.bitarray._mk(n, v)
            self.names.append((name, 'bits', (n, v)))
            return ba

    def int(self, name, lo=None, hi=None, edges=0, pins=None):
        """fresh solver integer in [lo, hi].  edges=k additionally case-splits the path on the k lowest and k highest values of
        the range (each pinned by a solver constraint) versus the interior, so that code which concretises the value still
        visits the range boundaries first."""
        from crosshair.tracers import NoTracing
        from crosshair.libimpl.builtinslib import SymbolicInt
        import z3
        with NoTracing():
            x = SymbolicInt(self._u(name))
            if lo is not None:
                self.space.add(x.var >= lo)
            if hi is not None:
                self.space.add(x.var <= hi)
            self.names.append((name, 'int', x))
        if edges and lo is not None and hi is not None and hi - lo >= 2 * edges:
            pins = [lo + j for j in range(edges)] + [hi - j for j in range(edges)] + list(pins or [])
        if pins:
            pins = sorted(set(pv for pv in pins if (lo is None or pv >= lo) and (hi is None or pv <= hi)))
            for j, pv in enumerate(pins):
                if self.bool(f'{name}@edge{j}'):
                    with NoTracing():
                        self.space.add(x.var == pv)
                    return x
            with NoTracing():
                for pv in pins:
                    self.space.add(x.var != pv)
        return x

    def bool(self, name):
        """a concrete bool chosen by a solver fork (both values explored)"""
        from crosshair.tracers import NoTracing
        from crosshair.libimpl.builtinslib import SymbolicBool
        with NoTracing():
            b = SymbolicBool(self._u(name))
            r = self.space.choose_possible(b.var)
            self.names.append((name, 'val', r))
            return r

    def symbool(self, name):
        from crosshair.tracers import NoTracing
        from crosshair.libimpl.builtinslib import SymbolicBool
        with NoTracing():
            b = SymbolicBool(self._u(name))
            self.names.append((name, 'bool', b))
            return b

    def opt_int(self, name, lo=None, hi=None):
        if self.bool(name + '?none'):
            self.names.append((name, 'val', None))
            return None
        return self.int(name, lo, hi)

    def choice(self, name, seq):
        """one element of a concrete sequence, chosen by solver forks"""
        seq = list(seq)
        i = 0
        while i < len(seq) - 1:
            if self.bool(f"{name}?{i}"):
                break
            i += 1
        self.names.append((name, 'val', seq[i] if _jsonable(seq[i]) else i))
        return seq[i]

    def float(self, name):
        from crosshair.tracers import NoTracing
        from crosshair.libimpl.builtinslib import PreciseIeeeSymbolicFloat
        with NoTracing():
            x = PreciseIeeeSymbolicFloat(self._u(name))
            self.names.append((name, 'float', x))
            return x

    def bytes(self, name, k):
        from crosshair.tracers import NoTracing
        from crosshair.libimpl.builtinslib import SymbolicBytes, SymbolicInt
        with NoTracing():
            items = []
            for j in range(k):
                x = SymbolicInt(self._u(f"{name}{j}"))
                self.space.add(x.var >= 0)
                self.space.add(x.var <= 255)
                items.append(x)
            b = SymbolicBytes(items)
            self.names.append((name, 'bytes', items))
            return b

    def chars(self, name, k, lo=0, hi=127):
        """symbolic str of k code points in [lo, hi]"""
        from crosshair.tracers import NoTracing
        from crosshair.libimpl.builtinslib import LazyIntSymbolicStr, SymbolicInt
        with NoTracing():
            items = []
            for j in range(k):
                x = SymbolicInt(self._u(f"{name}{j}"))
                self.space.add(x.var >= lo)
                self.space.add(x.var <= hi)
                items.append(x)
            s = LazyIntSymbolicStr(items)
            self.names.append((name, 'chars', items))
            return s

    def conc_bits(self, x):
        """concrete twin of a (symbolic) model bitarray; the solver enumerates every content"""
        import bitarray
        from crosshair.tracers import NoTracing
        from crosshair.core import realize
        from crosshair.libimpl.builtinslib import SymbolicInt
        import z3
        n = len(x)
        if n == 0:
            return bitarray.bitarray()
        with NoTracing():
            v = x._v
            if isinstance(v, int):
                return bitarray.bitarray._mk(n, v)
            sv = SymbolicInt(z3.BV2Int(v))
        c = realize(sv)
        return bitarray.bitarray._mk(n, int(c))

    def untraced(self, f):
        """run f with CrossHair tracing off (for building concrete C-level objects whose CrossHair model is incomplete)"""
        from crosshair.tracers import NoTracing
        with NoTracing():
            return f()

    def assume(self, cond):
        from crosshair.util import IgnoreAttempt
        if not cond:
            raise IgnoreAttempt("outside bound")

    def conc(self, x):
        """concretise (fork over all feasible values)"""
        from crosshair.core import realize
        return realize(x)

    def _realize_inputs(self):
        from crosshair.core import realize, deep_realize
        from crosshair.tracers import NoTracing
        import z3
        out = {}
        for name, kind, h in self.names:
            if kind == 'val':
                out[name] = h
            elif kind == 'bits':
                n, v = h
                if n == 0:
                    out[name] = ''
                else:
                    with NoTracing():
                        from crosshair.libimpl.builtinslib import SymbolicInt
                        sv = SymbolicInt(z3.BV2Int(v))
                    out[name] = format(int(realize(sv)), f'0{n}b')
            elif kind in ('int', 'bool'):
                out[name] = realize(h)
            elif kind == 'float':
                f = realize(h)
                out[name] = {'float_hex': float(f).hex() if not math.isnan(f) else 'nan'}
            elif kind == 'bytes':
                out[name] = {'bytes_hex': bytes(realize(x) for x in h).hex()}
            elif kind == 'chars':
                out[name] = {'chars': [realize(x) for x in h]}
        return out

    def fail(self, what, **obs):
        """Called on a failing branch. Known-finding guards are evaluated symbolically first."""
        for kf in self.cond.known:
            try:
                hit = kf.guard_fn(self._guard_env())
            except Exception:  # noqa: BLE001  guard not applicable to this condition's inputs
                hit = False
            if hit:
                self.known_hits.append(kf.key)
                return True
        self.space.detach_path()
        inputs = self._realize_inputs()
        robs = {}
        for k, v in obs.items():
            try:
                robs[k] = _plain(v)
            except Exception:  # noqa: BLE001
                robs[k] = '<unrepresentable>'
        self.failure = {'what': what, 'inputs': inputs, 'observed': robs, 'notes': _plain(self.notes)}
        return False

    def fail_hard(self, what, **obs):
        """a failure that no known-finding guard may absorb"""
        import dataclasses
        self.cond = dataclasses.replace(self.cond, known=[])
        return self.fail(what, **obs)

    def _guard_env(self):
        env = dict(self.params)
        for name, kind, h in self.names:
            if kind in ('val', 'int', 'bool', 'float'):
                env[name] = h
        return env


def _jsonable(x):
    return isinstance(x, (int, str, bool, type(None), float))


def _plain(v):
    from crosshair.core import deep_realize
    v = deep_realize(v)
    tn = type(v).__name__
    if tn in ('bitarray', 'frozenbitarray'):
        return _plain(v.to01())
    if isinstance(v, (bytes, bytearray)):
        return {'bytes_hex': bytes(v).hex()}
    if isinstance(v, float):
        return repr(v)
    if isinstance(v, (list, tuple)):
        return [_plain(x) for x in v]
    if isinstance(v, dict):
        return {str(k): _plain(x) for k, x in v.items()}
    if isinstance(v, (int, str, bool, type(None))):
        return v
    if isinstance(v, type):
        return v.__name__
    return repr(v)


# ===================================================================== concrete replay
class ConcK(KBase):
    symbolic = False

    def __init__(self, cond, inputs, verbose=True):
        super().__init__(cond)
        self.inputs = inputs
        self.failure = None
        self.verbose = verbose

    def _get(self, name):
        if name not in self.inputs:
            raise KeyError(f"replay file has no input '{name}'")
        return self.inputs[name]

    def bits(self, name, n):
        import bitarray
        s = self._get(name)
        assert len(s) == n, f"recorded content for {name} has {len(s)} bits, condition wants {n}"
        self.names.append((name, 'bits', s))
        return bitarray.bitarray(s)

    def int(self, name, lo=None, hi=None, edges=0, pins=None):
        v = self._get(name)
        self.names.append((name, 'int', v))
        return v

    def bool(self, name):
        v = bool(self._get(name))
        self.names.append((name, 'val', v))
        return v

    symbool = bool

    def opt_int(self, name, lo=None, hi=None):
        if self.bool(name + '?none'):
            return None
        return self.int(name, lo, hi)

    def choice(self, name, seq):
        seq = list(seq)
        i = 0
        while i < len(seq) - 1:
            if self.bool(f"{name}?{i}"):
                break
            i += 1
        return seq[i]

    def float(self, name):
        d = self._get(name)
        h = d['float_hex']
        return float('nan') if h == 'nan' else float.fromhex(h)

    def bytes(self, name, k):
        return bytes.fromhex(self._get(name)['bytes_hex'])

    def chars(self, name, k, lo=0, hi=127):
        return ''.join(chr(c) for c in self._get(name)['chars'])

    def conc_bits(self, x):
        return x

    def untraced(self, f):
        return f()

    def assume(self, cond):
        if not cond:
            raise AssertionError("replayed input lies outside the condition's bound")

    def conc(self, x):
        return x

    def fail_hard(self, what, **obs):
        return self.fail(what, **obs)

    def fail(self, what, **obs):
        robs = {k: _plain_c(v) for k, v in obs.items()}
        self.failure = {'what': what, 'observed': robs, 'notes': _plain_c(self.notes)}
        return False


def _plain_c(v):
    tn = type(v).__name__
    if tn in ('bitarray', 'frozenbitarray'):
        return v.to01()
    if isinstance(v, (bytes, bytearray)):
        return {'bytes_hex': bytes(v).hex()}
    if isinstance(v, float):
        return repr(v)
    if isinstance(v, (list, tuple)):
        return [_plain_c(x) for x in v]
    if isinstance(v, dict):
        return {str(k): _plain_c(x) for k, x in v.items()}
    if isinstance(v, (int, str, bool, type(None))):
        return v
    if isinstance(v, type):
        return v.__name__
    return repr(v)
