"""CrossHair environment for symbolic execution of /repo/bitstring over the sbx bitarray model.

Every stub installed here is part of the claim of every check; the list is reproduced in the
evidence (`STUBS`).  install() must run before `bitstring` is imported.
"""
from __future__ import annotations

import os
import struct
import sys

VERIF = os.path.dirname(os.path.dirname(os.path.abspath(__file__)))
REPO = os.environ.get('VERIF_REPO', '/repo')

STUBS = [
    "bitarray C extension replaced by the sbx bit-vector model (validated against the real extension by kit.modelcheck)",
    "format()/f-string of an unrealised symbolic int/float returns a placeholder (exception messages are not examined)",
    "struct.pack/unpack of e/f/d with <,> on symbolic floats/bytes modelled with z3 fpToFP(RNE)/fpToIEEEBV (NaN payload unspecified)",
    "float inputs are z3 Float64 (PreciseIeeeSymbolicFloat)",
    "functools.lru_cache bypassed by CrossHair; Dtype._create/_new_from_token unwrapped (caches are the subject of C04/C09 only)",
    "slice.indices patched with a Python re-implementation of PySlice_AdjustIndices that keeps indices symbolic",
    "options (lsb0, bytealigned, mxfp_overflow) restored after every path",
]

_installed = False
FORMAT_STUB = True  # conditions that examine formatted text switch this off


class _Placeholder(str):
    pass


def install():
    """Put the model first on sys.path, import crosshair + bitstring, apply patches. Idempotent."""
    global _installed
    if _installed:
        return
    _installed = True
    sys.path.insert(0, os.path.join(VERIF, 'sbx'))
    if REPO not in sys.path:
        sys.path.insert(1, REPO)
    import crosshair.core_and_libs  # noqa: F401  registers all library patches
    from crosshair import core
    from crosshair.libimpl import builtinslib as B
    from crosshair.tracers import NoTracing, ResumedTracing
    import z3

    # ---- floats are IEEE
    B._PYTYPE_TO_WRAPPER_TYPE[float] = ((B.PreciseIeeeSymbolicFloat, 1.0),)

    # ---- format stub
    orig_format = core._PATCH_REGISTRATIONS[format]

    def _format(obj, format_spec=""):
        if FORMAT_STUB:
            with NoTracing():
                if isinstance(obj, (B.SymbolicInt, B.SymbolicFloat)):
                    return "<sym>"
        return orig_format(obj, format_spec)
    core._PATCH_REGISTRATIONS[format] = _format

    # str(symbolic int) is also used in messages (e.g. f"{x!s}") - leave alone; only format is hot.

    # ---- struct float stub
    orig_pack = core._PATCH_REGISTRATIONS[struct.pack]
    orig_unpack = core._PATCH_REGISTRATIONS[struct.unpack]
    F64 = z3.Float64()
    SORTS = {'e': (z3.Float16(), 16), 'f': (z3.Float32(), 32), 'd': (z3.Float64(), 64)}

    def _pack(fmt, *vals):
        with NoTracing():
            simple = (isinstance(fmt, str) and len(fmt) == 2 and fmt[0] in '<>=@' and fmt[1] in 'efd'
                      and len(vals) == 1 and isinstance(vals[0], B.SymbolicFloat))
            if simple:
                fv = vals[0]
                if not isinstance(fv, B.PreciseIeeeSymbolicFloat):
                    simple = False
        if not simple:
            return orig_pack(fmt, *vals)
        with NoTracing():
            sort, w = SORTS[fmt[1]]
            x = fv.var
            if w == 64:
                narrowed = x
            else:
                narrowed = z3.fpToFP(z3.RNE(), x, sort)
            overflow = B.SymbolicBool(z3.And(z3.Not(z3.fpIsInf(x)), z3.Not(z3.fpIsNaN(x)), z3.fpIsInf(narrowed)))
        if overflow:
            raise OverflowError("float too large to pack with %s format" % fmt[1])
        with NoTracing():
            bits = z3.fpToIEEEBV(narrowed)
            k = w // 8
            terms = [z3.BV2Int(z3.Extract(w - 1 - 8 * j, w - 8 - 8 * j, bits)) for j in range(k)]
            if fmt[0] == '<' or (fmt[0] in '=@' and sys.byteorder == 'little'):
                terms.reverse()
            return B.SymbolicBytes([B.SymbolicInt(t) for t in terms])
    core._PATCH_REGISTRATIONS[struct.pack] = _pack

    def _unpack(fmt, buf):
        with NoTracing():
            simple = (isinstance(fmt, str) and len(fmt) == 2 and fmt[0] in '<>=@' and fmt[1] in 'efd'
                      and isinstance(buf, B.BytesLike))
        if not simple:
            return orig_unpack(fmt, buf)
        sort, w = SORTS[fmt[1]]
        k = w // 8
        if len(buf) != k:
            raise struct.error("unpack requires a buffer of %d bytes" % k)
        items = [buf[j] for j in range(k)]
        with NoTracing():
            if all(not isinstance(x, B.SymbolicInt) for x in items):
                return struct.unpack(fmt, bytes(items))
            if fmt[0] == '<' or (fmt[0] in '=@' and sys.byteorder == 'little'):
                items.reverse()
            parts = []
            for x in items:
                if isinstance(x, B.SymbolicInt):
                    t = x.var
                    if z3.is_app(t) and t.decl().kind() == z3.Z3_OP_BV2INT and t.arg(0).size() == 8:
                        parts.append(t.arg(0))
                    else:
                        parts.append(z3.Int2BV(t, 8))
                else:
                    parts.append(z3.BitVecVal(int(x), 8))
            bits = z3.Concat(*parts) if len(parts) > 1 else parts[0]
            f = z3.fpBVToFP(bits, sort)
            if w != 64:
                f = z3.fpToFP(z3.RNE(), f, F64)
            return (B.PreciseIeeeSymbolicFloat(f),)
    core._PATCH_REGISTRATIONS[struct.unpack] = _unpack

    # ---- slice.indices that keeps symbolic ints symbolic
    import bitarray as model
    if not getattr(model, '_SBX_MODEL', False):
        raise RuntimeError("env.install(): the sbx model is not first on sys.path")

    def _slice_indices(self, length):
        with NoTracing():
            symbolic = any(isinstance(x, (B.SymbolicInt, B.SymbolicBool)) for x in (self.start, self.stop, self.step, length))
        if not symbolic:
            return self.indices(length)
        if length < 0:
            raise ValueError("length should not be negative")
        start, stop, step, _ = model._adjust(self, length)
        return (start, stop, step)
    core._PATCH_REGISTRATIONS[slice.indices] = _slice_indices

    # ---- the code under test
    import bitstring  # noqa: F401
    from bitstring.dtypes import Dtype
    for nm in ('_create', '_new_from_token'):
        cm = Dtype.__dict__[nm]
        inner = cm.__func__
        if hasattr(inner, '__wrapped__'):
            DTYPE_CACHE_PARAMS[nm] = inner.cache_parameters()      # re-created with the code's own parameters by live_caches()
            setattr(Dtype, nm, classmethod(inner.__wrapped__))


DTYPE_CACHE_PARAMS = {}


def set_format_stub(on: bool):
    global FORMAT_STUB
    FORMAT_STUB = on


def live_caches():
    """Cond.setup hook (C04/C09): memoised functions keep their real lru caches during symbolic runs.

    CrossHair bypasses functools.lru_cache; here the real wrapper is called whenever every argument is concrete (the cached
    functions of bitstring take strings / small ints), so that cache hits, shared cached values and stale entries are part
    of what is explored.  Dtype._create / _new_from_token are re-wrapped (env.install() unwrapped them)."""
    import functools
    from crosshair import core
    from crosshair.libimpl import builtinslib as B
    from crosshair.tracers import NoTracing
    from functools import _lru_cache_wrapper

    def _concrete(x):
        if isinstance(x, (B.SymbolicValue,)) or type(x).__name__ in ('LazyIntSymbolicStr', 'SymbolicBytes'):
            return False
        if isinstance(x, (tuple, list)):
            return all(_concrete(y) for y in x)
        if isinstance(x, dict):
            return all(_concrete(k) and _concrete(v) for k, v in x.items())
        return True

    def call_cache(self, *a, **kw):
        if not isinstance(self, _lru_cache_wrapper):
            raise TypeError
        with NoTracing():
            ok = _concrete(a) and _concrete(kw)
        if ok:
            # a miss runs the wrapped function *traced* (it is plain Python called from the C wrapper)
            return _lru_cache_wrapper.__call__(self, *a, **kw)
        return self.__wrapped__(*a, **kw)
    core._PATCH_REGISTRATIONS[_lru_cache_wrapper.__call__] = call_cache

    from bitstring.dtypes import Dtype, CACHE_SIZE
    for nm in ('_create', '_new_from_token'):
        cm = Dtype.__dict__[nm]
        inner = cm.__func__
        if not hasattr(inner, 'cache_info') and nm in DTYPE_CACHE_PARAMS:
            setattr(Dtype, nm, classmethod(functools.lru_cache(**DTYPE_CACHE_PARAMS[nm])(inner)))


def all_caches():
    """every lru cache found on the package's modules (name -> wrapper)"""
    import bitstring
    from bitstring import bitstore_helpers, utils, dtypes
    out = {}
    for mod in (bitstore_helpers, utils):
        for nm, v in vars(mod).items():
            if hasattr(v, 'cache_clear') and hasattr(v, '__wrapped__'):
                out[f'{mod.__name__}.{nm}'] = v
    for nm in ('_create', '_new_from_token'):
        f = dtypes.Dtype.__dict__[nm].__func__
        if hasattr(f, 'cache_clear'):
            out[f'Dtype.{nm}'] = f
    return out


def clear_caches():
    for v in all_caches().values():
        v.cache_clear()
    import bitstring
    bitstring.Array._largest_values = None
