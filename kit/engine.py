"""Condition runner: bounded symbolic exploration of one harness function per process.

A Cond is one universally-quantified claim with explicit bounds.  explore() runs CrossHair's
per-path symbolic execution loop on it until the path tree is exhausted (verdict: confirmed for
every value inside the bound), a failing path is found (candidate violation -> replay on the real
C extension), or the time budget is used up (inconclusive).
"""
from __future__ import annotations

import dataclasses
import fnmatch
import hashlib
import json
import multiprocessing as mp
import os
import signal
import subprocess
import sys
import time
import traceback
from typing import Any, Callable, Dict, List, Optional

VERIF = os.path.dirname(os.path.dirname(os.path.abspath(__file__)))
WORK = os.path.join(os.environ.get('VERIF_OUT') or VERIF, '.work', str(os.getpid()))

EXIT_OK, EXIT_VIOLATION, EXIT_HARNESS = 0, 1, 3


@dataclasses.dataclass
class Cond:
    id: str
    fn: Callable
    bounds: str
    drives: List[str]
    params: Dict[str, Any] = dataclasses.field(default_factory=dict)
    timeout: float = 120.0          # CPU seconds of exploration
    path_timeout: float = 30.0
    format_stub: bool = True
    setup: Optional[Callable] = None  # run once in the child before exploring (extra env patches)
    known: list = dataclasses.field(default_factory=list)
    twin: bool = False              # reachability twin: must be refuted
    module: str = ''
    direct: Optional[Callable] = None   # direct solver query instead of path exploration: () -> result dict


@dataclasses.dataclass
class KnownFinding:
    prop: str
    key: str
    cond_glob: str
    guard: str
    witness: str
    text: str

    def guard_fn(self, env):
        return eval(self.guard, {'__builtins__': {'abs': abs, 'len': len, 'min': min, 'max': max, 'isinstance': isinstance, 'int': int}}, env)  # noqa: S307


def load_known(prop: str):
    """returns (findings, fixed_lines) for a property from known-findings.txt"""
    path = os.path.join(VERIF, 'known-findings.txt')
    findings, fixed = [], []
    if not os.path.exists(path):
        return findings, fixed
    for line in open(path):
        line = line.strip()
        if not line or line.startswith('#'):
            continue
        if line.startswith('fixed:'):
            if f"property={prop} " in line:
                fixed.append(line)
            continue
        if not line.startswith('finding:'):
            continue
        head, _, text = line[len('finding:'):].partition('::')
        f = {}
        # fields: property= key= cond= witness= guard=<rest up to ' witness=' ...>
        toks = head.strip()
        import re
        m = re.match(r'property=(\S+)\s+key=(\S+)\s+cond=(\S+)\s+guard=(.*?)\s+witness=(\S+)\s*$', toks)
        if not m:
            raise SystemExit(f"known-findings.txt: cannot parse line: {line}")
        if m.group(1) != prop:
            continue
        findings.append(KnownFinding(m.group(1), m.group(2), m.group(3), m.group(4).strip(), m.group(5), text.strip()))
    return findings, fixed


# ------------------------------------------------------------------ exploration (child process)
def make_twin(c: Cond) -> Cond:
    """reachability twin: the same harness with `assert False` appended to every path on which the harness's own
    assertions held; it MUST come back refuted (otherwise the condition is vacuous or the engine cannot report
    failures for it), and its counterexample replayed on the real code must reach the end of the real harness"""
    import dataclasses
    fn = c.fn

    def twin(K):
        r = fn(K)
        if r is False:
            return True
        K.cond = dataclasses.replace(K.cond, known=[])      # known-finding guards do not apply to the twin's own assertion
        return K.fail('reachability twin: end of harness reached')
    return dataclasses.replace(c, id=c.id + '#reach', fn=twin, twin=True, timeout=min(c.timeout, 120))


def explore(cond: Cond, seed: int) -> dict:
    if cond.direct is not None:
        return run_direct(cond)
    from kit import env
    env.install()
    env.set_format_stub(cond.format_stub)
    if cond.setup:
        cond.setup()
    import z3
    from time import process_time
    from crosshair.core import Patched
    from crosshair.statespace import (StateSpace, RootNode, StateSpaceContext, CallAnalysis,
                                      VerificationStatus)
    from crosshair.tracers import COMPOSITE_TRACER, NoTracing, ResumedTracing
    from crosshair.util import IgnoreAttempt, UnexploredPath, NotDeterministic, CrossHairInternal
    from crosshair.condition_parser import condition_parser
    from crosshair.options import DEFAULT_OPTIONS
    from kit.k import SymK
    import bitstring

    # solver instrumentation
    qstats = {'sat': 0, 'unsat': 0, 'unknown': 0, 'time': 0.0}
    orig_check = z3.Solver.check

    def counted_check(self, *a):
        t = time.perf_counter()
        r = orig_check(self, *a)
        qstats['time'] += time.perf_counter() - t
        qstats[str(r)] = qstats.get(str(r), 0) + 1
        return r
    z3.Solver.check = counted_check

    root = RootNode()
    root._random.seed(seed)
    res = {'cond': cond.id, 'paths': 0, 'reached': 0, 'ignored': 0, 'unknown': 0, 'known_hits': {},
           'status': None, 'failure': None, 'unknown_reasons': {}, 'witness': None}
    t_start = process_time()
    w_start = time.time()
    deadline = t_start + cond.timeout
    exhausted = False
    opt0 = (bitstring.options.lsb0, bitstring.options.bytealigned, bitstring.options.mxfp_overflow, bitstring.options.no_color)
    pkg_snap = None
    try:
        while True:
            now = process_time()
            if now > deadline:
                res['status'] = 'timeout'
                break
            res['paths'] += 1
            _reset_model_caches()
            if pkg_snap is None:
                pkg_snap = snapshot_package_state()
            else:
                restore_package_state(pkg_snap)
            space = StateSpace(execution_deadline=now + cond.path_timeout,
                               model_check_timeout=cond.path_timeout / 2, search_root=root)
            K = None
            status = None
            try:
                with condition_parser(DEFAULT_OPTIONS.analysis_kind), Patched(), COMPOSITE_TRACER, NoTracing(), StateSpaceContext(space):
                    K = SymK(cond, space)
                    try:
                        with ResumedTracing():
                            ok = cond.fn(K)
                            if ok is not True and ok is not False:
                                ok = bool(ok)
                        status = VerificationStatus.CONFIRMED if ok else VerificationStatus.REFUTED
                        res['reached'] += 1
                        if ok and res['witness'] is None and res['reached'] >= 1:
                            try:
                                with ResumedTracing():
                                    space.detach_path()
                                    res['witness'] = K._realize_inputs()
                            except BaseException:  # noqa: BLE001
                                res['witness'] = None
                    except IgnoreAttempt:
                        status = None
                        res['ignored'] += 1
                    except UnexploredPath as e:
                        status = VerificationStatus.UNKNOWN
                        res['unknown'] += 1
                        k = type(e).__name__
                        res['unknown_reasons'][k] = res['unknown_reasons'].get(k, 0) + 1
                    except NotDeterministic:
                        raise
                    except CrossHairInternal:
                        raise
                    except Exception as e:  # noqa: BLE001  harness let an exception escape
                        from crosshair.core import suspected_proxy_intolerance_exception
                        if suspected_proxy_intolerance_exception(e):
                            status = VerificationStatus.UNKNOWN
                            res['unknown'] += 1
                            res['unknown_reasons']['proxy-intolerance'] = res['unknown_reasons'].get('proxy-intolerance', 0) + 1
                        else:
                            status = VerificationStatus.REFUTED
                            res['reached'] += 1
                            tb = traceback.format_exc()
                            try:
                                with ResumedTracing():
                                    K.fail('harness raised ' + type(e).__name__, traceback=tb[-1500:])
                            except BaseException as e2:  # noqa: BLE001
                                K.failure = {'what': 'harness raised ' + type(e).__name__, 'inputs': None,
                                             'observed': {'traceback': tb[-1500:], 'capture_error': repr(e2)}}
                    finally:
                        bitstring.options.lsb0, bitstring.options.bytealigned, bitstring.options.mxfp_overflow, bitstring.options.no_color = opt0
                    for kh in (K.known_hits if K else []):
                        res['known_hits'][kh] = res['known_hits'].get(kh, 0) + 1
                    _, exhausted = space.bubble_status(CallAnalysis(status))
            except NotDeterministic:
                res['status'] = 'harness-error'
                res['failure'] = {'what': 'NotDeterministic', 'observed': {'traceback': traceback.format_exc()[-2000:]}}
                break
            if status == VerificationStatus.REFUTED:
                res['status'] = 'refuted'
                res['failure'] = K.failure
                break
            if exhausted:
                res['status'] = 'confirmed' if res['unknown'] == 0 else 'unknown'
                break
    except BaseException as e:  # noqa: BLE001
        res['status'] = 'harness-error'
        res['failure'] = {'what': 'engine exception ' + type(e).__name__, 'observed': {'traceback': traceback.format_exc()[-3000:]}}
    res['exhausted'] = bool(exhausted)
    res['cpu_s'] = round(process_time() - t_start, 2)
    res['wall_s'] = round(time.time() - w_start, 2)
    res['solver'] = {k: (round(v, 3) if isinstance(v, float) else v) for k, v in qstats.items()}
    if res['status'] == 'confirmed' and res['reached'] == 0:
        res['status'] = 'vacuous'
    return res


def run_direct(cond: Cond) -> dict:
    """a condition decided by one (or a few) direct z3 queries built from the current source/data of /repo"""
    from time import process_time
    t0, w0 = process_time(), time.time()
    res = {'cond': cond.id, 'paths': 0, 'reached': 0, 'ignored': 0, 'unknown': 0, 'known_hits': {}, 'status': None, 'failure': None,
           'unknown_reasons': {}, 'witness': None, 'exhausted': False}
    try:
        out = cond.direct()
        res.update(out)
        res['exhausted'] = res['status'] == 'confirmed'
    except BaseException as e:  # noqa: BLE001
        res['status'] = 'harness-error'
        res['failure'] = {'what': 'direct query raised ' + type(e).__name__, 'observed': {'traceback': traceback.format_exc()[-3000:]}}
    res['cpu_s'] = round(process_time() - t0, 2)
    res['wall_s'] = round(time.time() - w0, 2)
    res.setdefault('solver', {})
    return res


_SIMPLE = (dict, list, set, str, int, float, bool, tuple, frozenset, bytes, type(None))


def snapshot_package_state(prefix='bitstring'):
    """Process-global state of the package under test (module globals, class attributes, attributes of module-level singleton objects).
    Paths of one condition run one after the other in one process; without a reset, state left behind by one path (a class-level cache, a registry, a
    rebinding of a class attribute) would leak into the next and the exploration of call histories would depend on the order of the paths."""
    import types
    snap = []
    seen = set()
    for mname, mod in list(sys.modules.items()):
        if mod is None or not (mname == prefix or mname.startswith(prefix + '.')):
            continue
        for gname, val in list(vars(mod).items()):
            if gname.startswith('__'):
                continue
            if isinstance(val, (dict, list, set)) and id(val) not in seen:
                seen.add(id(val))
                snap.append(('container', val, type(val)(val)))
            elif isinstance(val, type) and getattr(val, '__module__', '').startswith(prefix) and id(val) not in seen:
                seen.add(id(val))
                attrs = {}
                for a, v in list(vars(val).items()):
                    if a.startswith('__') or isinstance(v, (types.FunctionType, classmethod, staticmethod, property, types.MemberDescriptorType, types.GetSetDescriptorType)) or callable(v):
                        continue
                    if isinstance(v, _SIMPLE):
                        attrs[a] = (v, type(v)(v) if isinstance(v, (dict, list, set)) else v)
                snap.append(('class', val, attrs))
            elif (not isinstance(val, (type, types.ModuleType, types.FunctionType))) and type(val).__module__.startswith(prefix) and hasattr(val, '__dict__') and id(val) not in seen:
                seen.add(id(val))
                snap.append(('object', val, {a: (v, type(v)(v) if isinstance(v, (dict, list, set)) else v) for a, v in vars(val).items() if isinstance(v, _SIMPLE)}))
    return snap


def restore_package_state(snap):
    import types
    for kind, obj, saved in snap:
        if kind == 'container':
            if obj != saved:
                obj.clear()
                (obj.extend if isinstance(obj, list) else obj.update)(saved)
        elif kind == 'class':
            for a, v in list(vars(obj).items()):
                if a.startswith('__') or a in saved:
                    continue
                if isinstance(v, _SIMPLE):
                    try:
                        delattr(obj, a)           # a data attribute that did not exist when the condition started
                    except (AttributeError, TypeError):
                        pass
            for a, (orig, copy_) in saved.items():
                if isinstance(orig, (dict, list, set)):
                    if orig != copy_:
                        orig.clear()
                        (orig.extend if isinstance(orig, list) else orig.update)(copy_)
                    if vars(obj).get(a) is not orig:
                        setattr(obj, a, orig)
                elif vars(obj).get(a, _SIMPLE) is not orig and vars(obj).get(a, _SIMPLE) != orig:
                    setattr(obj, a, orig)
        else:
            d = vars(obj)
            for a, (orig, copy_) in saved.items():
                if isinstance(orig, (dict, list, set)):
                    if orig != copy_:
                        orig.clear()
                        (orig.extend if isinstance(orig, list) else orig.update)(copy_)
                    if d.get(a) is not orig:
                        d[a] = orig
                elif d.get(a, _SIMPLE) != orig or type(d.get(a)) is not type(orig):
                    d[a] = orig


def _reset_model_caches():
    import bitarray._core as C
    C.reset_provenance()


def _child(cond: Cond, seed: int, outpath: str):
    try:
        sys.setrecursionlimit(10000)
        res = explore(cond, seed)
    except BaseException as e:  # noqa: BLE001
        res = {'cond': cond.id, 'status': 'harness-error', 'paths': 0, 'reached': 0, 'unknown': 0, 'ignored': 0,
               'failure': {'what': 'child crashed: ' + repr(e), 'observed': {'traceback': traceback.format_exc()[-3000:]}},
               'solver': {}, 'cpu_s': 0, 'wall_s': 0, 'known_hits': {}, 'exhausted': False}
    with open(outpath + '.tmp', 'w') as f:
        json.dump(res, f)
    os.replace(outpath + '.tmp', outpath)
    os._exit(0)


def run_pool(conds: List[Cond], seed: int, jobs: int, progress=True) -> List[dict]:
    os.makedirs(WORK, exist_ok=True)
    ctx = mp.get_context('fork')
    pending = list(enumerate(conds))
    running = {}
    results: Dict[int, dict] = {}
    t0 = time.time()
    while pending or running:
        while pending and len(running) < jobs:
            i, c = pending.pop(0)
            out = os.path.join(WORK, f"r{os.getpid()}_{i}.json")
            if os.path.exists(out):
                os.unlink(out)
            p = ctx.Process(target=_child, args=(c, seed, out))
            p.start()
            running[i] = (p, c, out, time.time())
        time.sleep(0.05)
        for i in list(running):
            p, c, out, ts = running[i]
            hard = c.timeout * 2 + 60
            if not p.is_alive():
                p.join()
                if os.path.exists(out):
                    results[i] = json.load(open(out))
                    os.unlink(out)
                else:
                    results[i] = {'cond': c.id, 'status': 'harness-error', 'paths': 0, 'reached': 0, 'unknown': 0, 'ignored': 0,
                                  'failure': {'what': f'child died (exit {p.exitcode})', 'observed': {}}, 'solver': {}, 'cpu_s': 0,
                                  'wall_s': round(time.time() - ts, 1), 'known_hits': {}, 'exhausted': False}
                del running[i]
                if progress:
                    r = results[i]
                    print(f"  [{len(results)}/{len(conds)}] {r['status']:<10} {c.id}  paths={r.get('paths')} cpu={r.get('cpu_s')}s", flush=True)
            elif time.time() - ts > hard:
                p.kill()
                p.join()
                results[i] = {'cond': c.id, 'status': 'timeout', 'paths': 0, 'reached': 0, 'unknown': 0, 'ignored': 0, 'failure': None,
                              'solver': {}, 'cpu_s': hard, 'wall_s': hard, 'known_hits': {}, 'exhausted': False, 'killed': True}
                del running[i]
                if progress:
                    print(f"  [{len(results)}/{len(conds)}] killed     {c.id}", flush=True)
    return [results[i] for i in range(len(conds))]
