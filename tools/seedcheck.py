#!/usr/bin/env python3
"""Confirm a seeded defect and run our check against it.

usage: seedcheck.py <seed-name> <property> <outdir-with-patch.diff-and-demo.py> [--tier quick|thorough] [--only GLOB]

1. in a scratch worktree of /repo (under /tmp): demo passes on HEAD, patch applies, suite passes with it, demo fails with it
2. apply the patch to /repo, run check.py <property>, undo it straight afterwards
3. store patch, demo and meta.json under /verif/seeded/<seed-name>/
"""
import json
import os
import shutil
import subprocess
import sys
import time

VERIF = os.path.dirname(os.path.dirname(os.path.abspath(__file__)))


def sh(cmd, cwd=None, timeout=3600):
    r = subprocess.run(cmd, shell=True, cwd=cwd, capture_output=True, text=True, timeout=timeout)
    return r.returncode, r.stdout + r.stderr


def main():
    name, prop, src = sys.argv[1], sys.argv[2], sys.argv[3]
    tier = 'quick'
    only = None
    if '--tier' in sys.argv:
        tier = sys.argv[sys.argv.index('--tier') + 1]
    if '--only' in sys.argv:
        only = sys.argv[sys.argv.index('--only') + 1]
    patch = os.path.join(src, 'patch.diff')
    demo = os.path.join(src, 'demo.py')
    wt = f'/tmp/seedverify_{name}'
    sh(f'git -C /repo worktree remove --force {wt}')
    rc, o = sh(f'git -C /repo worktree add -q --detach {wt} HEAD')
    assert rc == 0, o
    meta = {'seed': name, 'property': prop, 'repo_head': sh('git -C /repo rev-parse --short HEAD')[1].strip()}
    try:
        rc0, o0 = sh(f'/venv/bin/python {demo}', cwd=wt)
        meta['demo_on_clean_tree'] = {'exit': rc0, 'tail': o0[-300:]}
        rc, o = sh(f'git apply {patch}', cwd=wt)
        assert rc == 0, 'patch does not apply: ' + o
        rc1, o1 = sh(f'/venv/bin/python {demo}', cwd=wt)
        meta['demo_with_patch'] = {'exit': rc1, 'tail': o1[-600:]}
        rc2, o2 = sh('/venv/bin/python -m pytest -q -p no:cacheprovider 2>&1 | grep -E "passed|failed" | tail -1', cwd=wt)
        meta['suite_with_patch'] = o2.strip()
    finally:
        sh(f'git -C /repo worktree remove --force {wt}')
    confirmed = rc0 == 0 and rc1 != 0 and '836 passed' in meta['suite_with_patch'] and 'failed' not in meta['suite_with_patch']
    meta['confirmed'] = confirmed
    print(f"[{name}] demo clean={rc0} patched={rc1} suite='{meta['suite_with_patch']}' confirmed={confirmed}")
    if not confirmed:
        print(json.dumps(meta, indent=1))
        return 2
    # run our check against it
    jobs = sys.argv[sys.argv.index('--jobs') + 1] if '--jobs' in sys.argv else None
    cmd = f'/venv/bin/python check.py {prop} --tier {tier}' + (f" --only '{only}'" if only else '') + (f' --jobs {jobs}' if jobs else '')
    t0 = time.time()
    if '--isolated' in sys.argv:
        # same check, but against a scratch worktree carrying the patch (VERIF_REPO) and with evidence/replays redirected
        # (VERIF_OUT), so that it can run while other checks are using /repo and /verif/evidence
        wt2, out2 = f'/tmp/seedrun_{name}', f'/tmp/seedrun_{name}_out'
        sh(f'git -C /repo worktree remove --force {wt2}')
        rc, o = sh(f'git -C /repo worktree add -q --detach {wt2} HEAD')
        assert rc == 0, o
        try:
            rc, o = sh(f'git apply {patch}', cwd=wt2)
            assert rc == 0, o
            os.makedirs(out2, exist_ok=True)
            rcc, oc = sh(f'VERIF_REPO={wt2} VERIF_OUT={out2} ' + cmd, cwd=VERIF, timeout=7200)
        finally:
            sh(f'git -C /repo worktree remove --force {wt2}')
            shutil.rmtree(out2, ignore_errors=True)
    else:
        st = sh('git -C /repo status --porcelain')[1].strip()
        assert st == '', '/repo has uncommitted changes: ' + st
        rc, o = sh(f'git -C /repo apply {patch}')
        assert rc == 0, o
        try:
            rcc, oc = sh(cmd, cwd=VERIF, timeout=7200)
        finally:
            sh('git -C /repo checkout -- .')
    viol = [l for l in oc.splitlines() if l.startswith('VIOLATION')]
    herr = [l for l in oc.splitlines() if l.startswith('HARNESS-ERROR')]
    summary = [l for l in oc.splitlines() if l.strip().startswith('confirmed ')]
    meta['check'] = {'cmd': cmd, 'exit': rcc, 'violations': len(viol), 'first_violations': viol[:3], 'harness_errors': herr[:3], 'summary': summary[-1:] , 'wall_s': round(time.time() - t0, 1)}
    meta['caught'] = rcc == 1 and len(viol) > 0
    print(f"[{name}] check exit={rcc} violations={len(viol)} harness_errors={len(herr)} caught={meta['caught']} ({meta['check']['wall_s']}s)")
    for l in oc.splitlines():
        if l.startswith('  result') or l.startswith('  inputs') or l.startswith('  observed'):
            print('   ', l[:300])
            if l.startswith('  observed'):
                break
    dst = os.path.join(VERIF, 'seeded', name)
    os.makedirs(dst, exist_ok=True)
    shutil.copy(patch, os.path.join(dst, 'patch.diff'))
    shutil.copy(demo, os.path.join(dst, 'demo.py'))
    for nn in ('notes.md', 'NOTES.md'):
        if os.path.exists(os.path.join(src, nn)):
            meta['needs_to_manifest'] = open(os.path.join(src, nn)).read()[:1500]
    prev = os.path.join(dst, 'meta.json')
    hist = []
    if os.path.exists(prev):
        old = json.load(open(prev))
        hist = old.get('history', []) + [{'check': old.get('check'), 'caught': old.get('caught')}]
    meta['history'] = hist
    json.dump(meta, open(prev, 'w'), indent=1)
    # clean replay files produced by the run against the patched tree
    if '--isolated' not in sys.argv:
        shutil.rmtree(os.path.join(VERIF, 'replays', prop), ignore_errors=True)
    return 0 if meta['caught'] else 1


if __name__ == '__main__':
    sys.exit(main())
