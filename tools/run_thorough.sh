#!/bin/bash
# runs every thorough tier once, in order of size; prints one summary block per property
# usage: tools/run_thorough.sh [jobs] [props...]
cd "$(dirname "$0")/.."
JOBS=${1:-16}; shift
PROPS=${@:-C09 C11 C18 C17 C05 C15 C10 C19 C12 C13 C07 C02 C06 C14 C03 C16 C01 C08 C20 C04}
for p in $PROPS; do
  t0=$(date +%s)
  /venv/bin/python check.py $p --tier thorough --jobs $JOBS > /tmp/thorough_$p.$$.log 2>&1
  rc=$?
  t1=$(date +%s)
  echo "=== $p rc=$rc wall=$((t1-t0))s"
  grep -E "^(HARNESS|VIOLATION|KNOWN|  confirmed|  INCONC)" /tmp/thorough_$p.$$.log | cut -c1-400
  rm -f /tmp/thorough_$p.$$.log
done
