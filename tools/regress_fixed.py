#!/usr/bin/env python3
"""For every `fixed:` entry of known-findings.txt: revert that commit in a scratch worktree of /repo (HEAD otherwise unchanged) and run the
property's quick check against it (VERIF_REPO / VERIF_OUT, nothing in /repo or /verif/evidence is touched).  A repaired defect that comes
back must be reported as a VIOLATION.  Results: seeded/regress-fixed.json.   usage: regress_fixed.py [jobs] [HASH ...]"""
import json, os, re, shutil, subprocess, sys, time
VERIF = os.path.dirname(os.path.dirname(os.path.abspath(__file__)))


def sh(cmd, cwd=None, timeout=5400):
    try:
        r = subprocess.run(cmd, shell=True, cwd=cwd, capture_output=True, text=True, timeout=timeout)
        return r.returncode, r.stdout + r.stderr
    except subprocess.TimeoutExpired:
        return 124, 'timeout'


def main():
    jobs = sys.argv[1] if len(sys.argv) > 1 else '6'
    only = set(sys.argv[2:])
    entries = []
    for line in open(os.path.join(VERIF, 'known-findings.txt')):
        m = re.match(r'fixed: property=(C\d+) ([0-9a-f]{7})\b', line)
        if m and (not only or m.group(2) in only):
            entries.append((m.group(1), m.group(2), line.split(' ', 3)[3].strip()[:160]))
    outp = os.path.join(VERIF, 'seeded', 'regress-fixed.json')
    results = json.load(open(outp)) if os.path.exists(outp) else {}
    for prop, h, text in entries:
        if h in results and results[h].get('status') in ('reported', 'conflict') and not only:
            continue
        wt, out = f'/tmp/regress_{h}', f'/tmp/regress_{h}_out'
        sh(f'git -C /repo worktree remove --force {wt}')
        rc, o = sh(f'git -C /repo worktree add -q --detach {wt} HEAD')
        assert rc == 0, o
        t0 = time.time()
        try:
            rc, o = sh(f'git revert --no-commit {h}', cwd=wt)
            if rc != 0:
                results[h] = {'property': prop, 'status': 'conflict', 'what': text, 'note': 'later commits touch the same lines: the revert does not apply cleanly'}
            else:
                os.makedirs(out, exist_ok=True)
                rcc, oc = sh(f'VERIF_REPO={wt} VERIF_OUT={out} /venv/bin/python check.py {prop} --tier quick --jobs {jobs}', cwd=VERIF)
                viol = [l for l in oc.splitlines() if l.startswith('VIOLATION')]
                conds = sorted(set(re.sub(r'.*/(C\d+\.[^/]*?)-[0-9a-f]{10}\.json$', r'\1', v) for v in viol))
                results[h] = {'property': prop, 'status': 'reported' if (rcc == 1 and viol) else 'NOT-REPORTED', 'exit': rcc, 'violations': len(viol), 'conditions': conds[:6],
                              'what': text, 'wall_s': round(time.time() - t0)}
        finally:
            sh(f'git -C /repo worktree remove --force {wt}')
            shutil.rmtree(out, ignore_errors=True)
        print(h, prop, results[h]['status'], results[h].get('violations'), flush=True)
        json.dump(results, open(outp, 'w'), indent=1)
    bad = [h for h, r in results.items() if r['status'] == 'NOT-REPORTED']
    print('not reported:', bad)


if __name__ == '__main__':
    main()
