#!/usr/bin/env python3
"""Regenerate MANIFEST.json from the table below (keeps it schema-valid at all times)."""
import json
import os

HERE = os.path.dirname(os.path.dirname(os.path.abspath(__file__)))
BASELINE = json.load(open('/root/.vp/BASELINE.json'))['cmd'] if os.path.exists('/root/.vp/BASELINE.json') else \
    "cd /repo && /venv/bin/python -m pytest -ra -q -p no:cacheprovider --timeout=900 --continue-on-collection-errors --junitxml=<file>"

LEVEL_TEXT = ("Bounded symbolic execution of the real /repo/bitstring source over an SMT solver (CrossHair per-path engine + z3, "
              "bit-vector model of the bitarray C extension). Each condition is universal inside its stated bounds (all contents of the "
              "stated lengths, all integer arguments in the stated ranges - often every Python int); outside the bounds nothing is claimed. "
              "A counterexample is replayed on the real C extension before it is reported.")
NOTE = ("Trusted: bitarray C extension (replaced by a model that is differential-tested against it on every run), CPython struct/zlib/mmap, "
        "functools LRU internals, exception messages. Stubs listed in evidence.assumptions. Lengths are enumerated, never symbolic.")

# property -> (technique, design section, extra note) ; None = not yet claimed
CLAIMED = {
    'C20': ("symbolic execution (CrossHair/z3) audit of every public callable (table checked against introspection) with unbounded symbolic ints, catalogue operands incl. malformed tokens, msb0/lsb0, two-call sequences; no functional oracle", "DESIGN.md 5/C20", ""),
    'C09': ("symbolic execution (CrossHair/z3) with live lru caches: key sufficiency under solver-chosen option changes (warm vs cold twin), eviction with caches shrunk to 2, hit-equals-miss", "DESIGN.md 5/C09", ""),
    'C04': ("symbolic execution (CrossHair/z3) of derivation-route x mutation pairs with the string cache live; aliasing is observable through the model's identity semantics", "DESIGN.md 5/C04", ""),
    'C14': ("symbolic execution (CrossHair/z3) of every Array operation, one step from an arbitrary state (items + trailing bits, symbolic data), against a bit-level list model", "DESIGN.md 5/C14", ""),
    'C19': ("symbolic execution (CrossHair/z3) of str/repr shape on symbolic contents, solver-enumerated re-parse, pp layout with symbolic width/offset over a format catalogue, Array repr eval-back", "DESIGN.md 5/C19", ""),
    'C18': ("symbolic execution (CrossHair/z3) of every struct code x prefix against a reference struct encoder (documented semantics, cross-checked with the struct module), endian relations and byteswap", "DESIGN.md 5/C18", "Three call sites ('@l', '@L', '@' with alignment padding) are recorded known findings: bitstring documents '@' as '='."),
    'C08': ("symbolic execution (CrossHair/z3), 2-safety: object built through each construction route (fake mmap over symbolic file content, windows, slices) vs in-memory twin under an operation catalogue", "DESIGN.md 5/C08", ""),
    'C17': ("symbolic execution (CrossHair/z3) of tobytes/tofile/bytes and window read-back through bytes, BytesIO, filename and file-handle routes (fake mmap over symbolic content; chunk hook)", "DESIGN.md 5/C17", ""),
    'C11': ("direct z3 queries: every lookup table as an If-tree vs the format definition over the whole index domain; CrossHair path obligations on the real encoders/decoders with the table opaque", "DESIGN.md 5/C11", ""),
    'C12': ("symbolic execution (CrossHair/z3) of every position-taking operation under lsb0 against the absolute msb0 oracle on reversed operands", "DESIGN.md 5/C12", ""),
    'C05': ("symbolic execution (CrossHair/z3) of pack/unpack/token strings over a format catalogue with symbolic values, keyword lengths and stretchy contents", "DESIGN.md 5/C05", ""),
    'C10': ("symbolic execution (CrossHair/z3): encoders per bit-length class against the standards' codeword shape, decoder totality over all bit strings", "DESIGN.md 5/C10", ""),
    'C02': ("symbolic execution (CrossHair/z3) of every creation and reading route per dtype/width; value is one solver variable", "DESIGN.md 5/C02", ""),
    'C15': ("symbolic execution (CrossHair/z3): total classification of (dtype, length, value) into exact success or CreationError", "DESIGN.md 5/C15", ""),
    'C07': ("symbolic execution (CrossHair/z3) of find/rfind/findall/in/startswith/endswith/count/cut/split against a declarative brute-force definition", "DESIGN.md 5/C07", ""),
    'C06': ("symbolic execution (CrossHair/z3) of every stream operation, one step from an arbitrary (content, pos), with position invariant", "DESIGN.md 5/C06", ""),
    'C03': ("symbolic execution (CrossHair/z3) of every mutator, one step from an arbitrary state, against sequence-level oracles", "DESIGN.md 5/C03", ""),
    'C13': ("symbolic execution (CrossHair/z3) of ==, != and __hash__ (hash-input probe) over class pairs and promotable operands", "DESIGN.md 5/C13", ""),
    'C16': ("symbolic execution (CrossHair/z3) of &,|,^,~,<<,>> and in-place forms against bit-vector operators", "DESIGN.md 5/C16", ""),
    'C01': ("symbolic execution (CrossHair/z3) of indexing, slicing, + and * against a sequence oracle", "DESIGN.md 5/C01", ""),
}

NOT_APPLICABLE = {
}

ALL = [f'C{i:02d}' for i in range(1, 21)]


def main():
    checks = []
    for pid in ALL:
        if pid not in CLAIMED:
            continue
        tech, ref, extra = CLAIMED[pid]
        checks.append({
            'property_id': pid,
            'quick_cmd': f'/venv/bin/python check.py {pid} --tier quick',
            'thorough_cmd': f'/venv/bin/python check.py {pid} --tier thorough',
            'evidence_file': f'evidence/{pid}.json',
            'replay_cmd_template': '/venv/bin/python check.py --replay {path}',
            'engine': 'sbx-crosshair',
            'level_claimed': {'category': 'other', 'text': LEVEL_TEXT + (' ' + extra if extra else ''), 'design_ref': ref},
            'level_note': NOTE,
            'technique': tech,
        })
    na = []
    for pid in ALL:
        if pid in CLAIMED:
            continue
        na.append({'property_id': pid, 'reason': NOT_APPLICABLE.get(pid, 'check not built yet in this session (work in progress); the technique is expected to apply, see DESIGN.md section 5')})
    m = {
        'version': 1,
        'setup_cmd': '/venv/bin/python check.py --setup',
        'hooks': {
            'guard': 'SCOTT_GRIFFITHS_BITSTRING_VERIF',
            'enable': 'check.py sets SCOTT_GRIFFITHS_BITSTRING_VERIF=1 in its own environment; /repo is imported from its working tree (pure Python, nothing to build)',
            'baseline_off_cmd': 'cd /repo && env -u SCOTT_GRIFFITHS_BITSTRING_VERIF /venv/bin/python -m pytest -ra -q -p no:cacheprovider --timeout=900 --continue-on-collection-errors',
            'source_commits': ['2a1e07b', '6857b4c'],
            'add_only': True,
        },
        'engines': [{
            'name': 'sbx-crosshair', 'path': 'check.py',
            'serves_properties': sorted(CLAIMED),
            'kind_free_text': 'bounded symbolic execution of the real Python source (CrossHair 0.0.110 + z3) over a bit-vector model of bitarray; direct z3 queries for static tables',
        }],
        'checks': checks,
        'not_applicable': na,
        'notes': 'All checks: /venv/bin/python check.py <Cxx> --tier quick|thorough. Exit 0 held / 1 VIOLATION (replay-confirmed) / 3 harness error. VERIF_SEED seeds path choice; verdicts of exhausted conditions do not depend on it.',
    }
    with open(os.path.join(HERE, 'MANIFEST.json'), 'w') as f:
        json.dump(m, f, indent=1)
    print(f"MANIFEST.json: {len(checks)} checks, {len(na)} not_applicable")


if __name__ == '__main__':
    main()
