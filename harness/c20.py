"""C20 - well-typed misuse fails cleanly and never corrupts an object.

Audit conditions without a functional oracle: every public callable of the four classes, Array, Dtype and
pack is called with arguments of the documented types but arbitrary values (ints unbounded and symbolic,
Optionals also None, contents symbolic, token strings from a catalogue that includes malformed ones), in
msb0 and lsb0, also as the second call of a two-call sequence on one object.  Allowed outcomes: success or
one of the documented exception types; afterwards every involved object must still be valid.
"""
from __future__ import annotations

import io
import inspect

from kit.engine import Cond
from kit import oracle as O
from kit import logic as L
from kit import files as F
from kit.state import mk, raw, call, classes, is_stream, is_mutable, same, get_attr, set_attr
from harness.common import CLS

ASSUMPTIONS = [
    "argument tuples: integer parameters are unbounded solver integers (counts that become loop bounds are bounded), Optional parameters are also None, "
    "bitstring-like parameters come from a catalogue (symbolic 2-bit Bits, '', token strings incl. malformed ones, bytes, list, wrong types)",
    "the method table is checked against introspection of the live classes: a public method missing from the table is a harness error",
]

D = ['bitstring.bits:Bits._validate_slice', 'bitstring.exceptions:Error', 'bitstring.bitstore:BitStore.setitem_lsb0', 'bitstring.methods:pack', 'bitstring.utils:tokenparser']

FMT = ['uint:3', 'bin', 'hex:5', 'ue', 'zzz', 'uint:-1', '2*(', 'float:7', '', 'uint:0', 'bits:2, pad:1', 'int:1', 'bool', 'bytes', 'hex', 'uint:x', '3*', ')', 'se, ue', 'uintle:12', '=', '>', '>Z', 'uint:3=9', 'e4m3mxfp', 'bfloat:8', '0xZ', 'bits']
BSLIKE = ['sym2', 'empty-str', '0b1', '0x', 'uint:4=x', 'bytes', 'list', 'int5', 'none', 'float', 'self', 'bitarray', '0b', 'hex:3=abc']

# parameter kinds: I = int (unbounded), OI = Optional[int], C = small count int, B = bitstring-like, F = format, A = bytealigned, V = any value, P = positions (int / iterable / None)
METHODS = {
    # Bits
    'all': 'VP', 'any': 'VP', 'copy': '', 'count': 'V', 'cut': 'C OI OI OI', 'endswith': 'B OI OI', 'find': 'B OI OI A', 'findall': 'B OI OI OI A', 'join': 'S', 'pp': 'F W',
    'rfind': 'B OI OI A', 'split': 'B OI OI OI A', 'startswith': 'B OI OI', 'tobitarray': '', 'tobytes': '', 'tofile': 'Wr', 'unpack': 'F',
    '__getitem__': 'K', '__add__': 'B', '__radd__': 'B', '__mul__': 'C', '__rmul__': 'C', '__and__': 'B', '__or__': 'B', '__xor__': 'B', '__invert__': '', '__lshift__': 'I', '__rshift__': 'I',
    '__eq__': 'B', '__ne__': 'B', '__contains__': 'B', '__len__': '', '__iter__': '', '__bool__': '', '__str__': '', '__repr__': '', '__hash__': '', '__bytes__': '', '__copy__': '',
    # BitArray
    'append': 'B', 'byteswap': 'Y OI OI Bo', 'clear': '', 'insert': 'B I', 'invert': 'P', 'overwrite': 'B I', 'prepend': 'B', 'replace': 'B B OI OI OI A', 'reverse': 'OI OI', 'rol': 'I OI OI',
    'ror': 'I OI OI', 'set': 'VP', '__setitem__': 'K B', '__delitem__': 'K', '__iadd__': 'B', '__imul__': 'C', '__ilshift__': 'I', '__irshift__': 'I', '__iand__': 'B', '__ior__': 'B', '__ixor__': 'B',
    # streams
    'bytealign': '', 'peek': 'R', 'peeklist': 'F', 'read': 'R', 'readlist': 'F', 'readto': 'B A',
}
SKIP = {'fromstring', '__init__', '__new__', '__class__', '__getattr__', '__setattr__', '__lt__', '__gt__', '__le__', '__ge__', '__rand__', '__ror__', '__rxor__', '__reduce__', '__reduce_ex__',
        '__sizeof__', '__format__', '__dir__', '__getattribute__', '__delattr__', '__init_subclass__', '__subclasshook__', '__getstate__', '__class_getitem__'}


LIGHT = [False]
BSLIKE_Q = ['sym2', '0b1', 'uint:4=x', 'list', 'int5', 'self', 'empty-str']
FMT_Q = ['uint:3', 'bin', 'hex:5', 'ue', 'zzz', 'uint:-1', '2*(', '', 'uint:0', 'bits:2, pad:1', 'bool', 'uint:x', 'se, ue', '>Z', 'uint:3=9', 'bits']
HEAVY = {'split', 'replace', 'findall', 'cut', 'find', 'rfind', 'readto', 'startswith', 'endswith', '__contains__'}


def _bslike(K, kind, s, idx=0):
    import bitstring
    import bitarray
    if kind == 'sym2':
        return mk(K, bitstring.Bits, K.bits(f'arg{idx}', 2))
    return {'empty-str': '', '0b1': '0b1', '0x': '0x', 'uint:4=x': 'uint:4=x', 'bytes': b'\x01', 'list': [1, 0, 1], 'int5': 5, 'none': None, 'float': 1.5, 'self': s,
            'bitarray': bitarray.bitarray('01'), '0b': '0b', 'hex:3=abc': 'hex:3=abc'}[kind]


def _arg(K, code, s, idx):
    import bitstring
    if code == 'I':
        return K.int(f'a{idx}')
    if code == 'OI':
        return K.opt_int(f'a{idx}')
    if code == 'C':
        return K.int(f'a{idx}', -3, 6)
    if code == 'B':
        return _bslike(K, K.choice(f'a{idx}', BSLIKE_Q if LIGHT[0] else BSLIKE), s, idx)
    if code == 'Bc':   # bitstring-like without symbolic content (search-type methods fork on every match)
        return _bslike(K, K.choice(f'a{idx}', ['0b1', 'uint:4=x', 'int5', 'self'] if LIGHT[0] else [b for b in BSLIKE if b != 'sym2']), s, idx)
    if code == 'F':
        return K.choice(f'a{idx}', FMT_Q if LIGHT[0] else FMT)
    if code == 'R':
        if K.bool(f'a{idx}?int'):
            return K.int(f'a{idx}')
        return K.choice(f'a{idx}', FMT_Q if LIGHT[0] else FMT)
    if code == 'A':
        return K.choice(f'a{idx}', [None, True] if LIGHT[0] else [None, True, False])
    if code == 'V':
        return K.choice(f'a{idx}', [0, 1, True, None, 'x', 2])
    if code == 'P':
        k = K.choice(f'a{idx}kind', ['none', 'int', 'list', 'range', 'str'])
        if k == 'none':
            return None
        if k == 'int':
            return K.int(f'a{idx}')
        if k == 'list':
            return [K.int(f'a{idx}_0'), K.int(f'a{idx}_1')]
        if k == 'range':
            if LIGHT[0]:
                return K.choice(f'a{idx}_r', [range(0, 3), range(-1, 2), range(2, -1, -1), range(0, 9, 2), range(5, 7), range(0)])
            return range(K.conc(K.int(f'a{idx}_a', -6, 6)), K.conc(K.int(f'a{idx}_b', -6, 6)), K.choice(f'a{idx}_c', [1, -1, 2, -3]))
        return 'x'
    if code == 'VP':
        raise AssertionError
    if code == 'K':
        if K.bool(f'a{idx}?slice'):
            return slice(K.opt_int(f'a{idx}_s'), K.opt_int(f'a{idx}_e'), K.opt_int(f'a{idx}_t', -4, 4))
        return K.int(f'a{idx}')
    if code == 'S':
        return K.choice(f'a{idx}', [[], ['0b1', '0x2'], [s, s], ['zz'], [1], 'ab'])
    if code == 'W':
        return K.choice(f'a{idx}', [-5, 0, 1, 8, 50, 120, 300])
    if code == 'Wr':
        return F.FakeWriter() if K.symbolic else io.BytesIO()
    if code == 'Y':
        return K.choice(f'a{idx}', [None, 0, 1, 2, -1, 'h', '>HB', 'z', [1, 2], [1, -1], 1.5, ''])
    if code == 'Bo':
        return K.bool(f'a{idx}')
    raise ValueError(code)


def _args(K, spec, s):
    codes = []
    for c in spec.split():
        if c == 'VP':
            codes += ['V', 'P']
        else:
            codes.append(c)
    return [_arg(K, c, s, i) for i, c in enumerate(codes)]


def _documented(e):
    import bitstring
    return isinstance(e, (ValueError, IndexError, TypeError, bitstring.Error, OSError))


def _valid(K, s, cls, x, pos, opts, what):
    import bitstring
    now = (bitstring.options.lsb0, bitstring.options.bytealigned, bitstring.options.mxfp_overflow)
    if now != opts:
        return K.fail('module options changed by a call', after=now, before=opts, op=what)
    b = call(lambda: s.bin)
    if not b.ok or len(b.value) != len(s):
        return K.fail('object invalid after the call: len(s) != len(s.bin)', op=what)
    if is_stream(cls):
        if not K.check((0 <= s._pos) and (s._pos <= len(s)), 'stream position invalid after the call', pos=s._pos, length=len(s), op=what):
            return False
    if not is_mutable(cls):
        if not K.check(same(raw(s), x), 'immutable object changed by a call', op=what):
            return False
    return True


def h_method(cname, mname, n, lsb0, prefix_call=None):
    def h(K):
        import bitstring
        cls = classes()[cname]
        x = K.bits('x', n)
        pos = K.int('pos', 0, n) if is_stream(cls) else None
        s = mk(K, cls, x, pos)
        bitstring.options.lsb0 = lsb0
        opts = (bitstring.options.lsb0, bitstring.options.bytealigned, bitstring.options.mxfp_overflow)
        try:
            if prefix_call:
                r0 = call(lambda: get_attr(s, prefix_call[0])(*prefix_call[1]))
                if not r0.ok and not _documented(r0.exc):
                    return K.fail('internal error escaped', method=prefix_call[0], exc=r0.excname)
            spec = METHODS[mname]
            if LIGHT[0] and mname in HEAVY:
                spec = spec.replace('B', 'Bc')
            args = _args(K, spec, s)
            f = get_attr(s, mname)

            def go():
                r = f(*args)
                if inspect.isgenerator(r) or hasattr(r, '__next__'):
                    r = list(r)
                return r
            r = call(go)
            if not r.ok and not _documented(r.exc):
                return K.fail('an internal (undocumented) exception escaped from a public call', method=mname, exc=r.excname, lsb0=lsb0)
            ok = _valid(K, s, cls, x, pos, opts, mname)
            if ok is not True:
                return ok
            if r.ok and hasattr(r.value, '_bitstore') and r.value is not s:
                t = r.value
                if is_stream(type(t)) and not ((0 <= t._pos) and (t._pos <= len(t))):
                    return K.fail('returned stream has an invalid position', method=mname)
            return True
        finally:
            bitstring.options.lsb0 = False
    return h


PP_FMTS = [None, 'bin', 'hex', 'oct', 'bin8', 'hex:0', 'pad:2', 'pad2', 'pad', 'bin, pad:4', 'pad:3, hex', 'bool', 'uint:3', 'uint3, bin', 'float:16', 'bytes', 'bytes1, hex', 'bits', 'bits4', 'ue',
           'int4, uint4', 'e4m3mxfp', 'zzz', '', 'bin, hex, oct', 'hex:-4', 'bin:1000']


def h_pp_args(cname, n, lsb0):
    """pp with every kind of format token, separators (including the empty one), widths and both offset settings"""
    def h(K):
        import bitstring
        cls = classes()[cname]
        # concrete contents: formatting realises every bit, so symbolic content would only multiply the paths by 2^n
        x = O.from01(K.choice('content', [('0110100111000101' * n)[:n], '1' * n]))
        s = mk(K, cls, x, 0 if is_stream(cls) else None)
        fmt = K.choice('fmt', PP_FMTS)
        sep = K.choice('sep', ['', ' ', '__'])
        width = K.choice('width', [-1, 0, 1, 30, 120])
        so = K.bool('show_offset')
        bitstring.options.lsb0 = lsb0
        opts = (bitstring.options.lsb0, bitstring.options.bytealigned, bitstring.options.mxfp_overflow)
        try:
            r = call(lambda: s.pp(fmt, width, sep, so, io.StringIO()))
            if not r.ok and not _documented(r.exc):
                return K.fail('an internal (undocumented) exception escaped from pp()', exc=r.excname, fmt=fmt, sep=sep, width=width, lsb0=lsb0)
            return _valid(K, s, cls, x, 0 if is_stream(cls) else None, opts, 'pp')
        finally:
            bitstring.options.lsb0 = False
    return h


def h_pack(fmt):
    def h(K):
        import bitstring
        nargs = K.choice('nargs', [0, 1] if LIGHT[0] else [0, 1, 2])
        pool = [(K.choice('v0', [-1, 0, 1, 5, 255, 256, 70000]) if LIGHT[0] else K.int('v0', -3, 300)), K.choice('v1', ['ab', 'x', None, 1.5] if LIGHT[0] else ['ab', '', 'x', b'\x01', None, 1.5, [1]])]
        vals = pool[:nargs]
        kw = {}
        if K.bool('kw_n'):
            kw['n'] = (K.choice('n', [None, -1, 0, 1, 8, 70]) if LIGHT[0] else K.opt_int('n', -2, 70)) if K.bool('n_int') else 'q'
        if K.bool('kw_v'):
            kw['v'] = K.int('v')
        opts = (bitstring.options.lsb0, bitstring.options.bytealigned, bitstring.options.mxfp_overflow)
        r = call(lambda: bitstring.pack(fmt, *vals, **kw))
        if not r.ok and not _documented(r.exc):
            return K.fail('an internal (undocumented) exception escaped from pack', exc=r.excname, fmt=fmt)
        if r.ok and not (type(r.value) is bitstring.BitStream and r.value._pos == 0 and len(r.value.bin) == len(r.value)):
            return K.fail('pack returned an invalid object')
        return K.check((bitstring.options.lsb0, bitstring.options.bytealigned, bitstring.options.mxfp_overflow) == opts, 'options changed by pack')
    return h


def _bv(tok, v):
    # a huge int or an infinity is a value of the documented type only for the numeric dtypes
    numeric = tok.startswith(('uint', 'int', 'float', 'ue', 'se', 'uie', 'sie', 'bfloat', 'mxint', 'e8m0', 'e4m3', 'e5m2', 'e2m1', 'e3m2', 'e2m3', 'p3', 'p4'))
    if not numeric and isinstance(v, (int, float)) and not isinstance(v, bool) and (v != v or abs(v) > 2 ** 64):
        return 0
    return v


def h_dtype(tok):
    def h(K):
        import bitstring
        length = K.choice('length', [None, -1, 0, 8, 16] if LIGHT[0] else [None, -1, 0, 1, 7, 8, 16, 64, 65])
        scale = K.choice('scale', [None, 2, 0, 'auto'] if LIGHT[0] else [None, 2, 0, 0.5, 'auto', -1])
        r = call(lambda: bitstring.Dtype(tok, length, scale=scale))
        if not r.ok:
            return K.check(_documented(r.exc), 'an internal (undocumented) exception escaped from Dtype()', exc=r.excname, token=tok)
        d = r.value
        for what, f in {'str': lambda: str(d), 'repr': lambda: repr(d), 'build': lambda: d.build(_bv(tok, K.choice('bv', [0, -1, 'a', 1.5, 10 ** 400] if LIGHT[0] else [0, 1, -1, 'a', 1.5, None, b'\x00', True, 10 ** 400, float('inf')]))),
                        'parse': lambda: d.parse(bitstring.Bits('0xa5') if LIGHT[0] else mk(K, bitstring.Bits, K.bits('px', 8))), 'eq': lambda: d == bitstring.Dtype('uint8'), 'hash': lambda: hash(d)}.items():
            rr = call(f)
            if not rr.ok and not _documented(rr.exc):
                return K.fail('an internal (undocumented) exception escaped from a Dtype method', method=what, exc=rr.excname, token=tok, length=length, scale=scale)
        return True
    return h


def h_ctor(cname, kwname):
    def h(K):
        import bitstring
        cls = classes()[cname]
        length, offset = K.opt_int('length', -2, 70), K.opt_int('offset', -2, 20)
        extra = {}
        if is_stream(cls) and K.bool('with_pos'):
            extra['pos'] = K.int('pos')
        if kwname == 'auto-str':
            r = call(lambda: cls(K.choice('tok', (FMT_Q if LIGHT[0] else FMT) + ['0b01', '0x1, 0o7']), length=length, offset=offset, **extra))
        elif kwname == 'auto-int':
            r = call(lambda: cls(K.int('n', -3, 20), length=length, offset=offset, **extra))
        else:
            v = {'uint': lambda: K.int('v'), 'int': lambda: K.int('v'), 'hex': lambda: 'a5', 'bin': lambda: '01', 'bytes': lambda: b'\x01\x02',
                 'float': lambda: K.choice('fv', [1.5, 10 ** 400, -10 ** 400, float('inf'), float('nan'), 1e308, 7, True]), 'bool': lambda: True, 'ue': lambda: K.int('v', -2, 40), 'bits': lambda: '0b1',
                 'uintle': lambda: K.int('v'), 'e4m3mxfp': lambda: 1.0, 'nonsense': lambda: 1, 'filename': lambda: '/nonexistent/file', 'auto': lambda: '0b1'}.get(kwname, lambda: None)()
            if kwname == 'bitarray':
                import bitarray
                v = bitarray.bitarray('0110')
            r = call(lambda: cls(**{kwname: v}, length=length, offset=offset, **extra))
        if not r.ok:
            return K.check(_documented(r.exc), 'an internal (undocumented) exception escaped from a constructor', exc=r.excname, kw=kwname, length=length, offset=offset)
        s = r.value
        ok = len(s.bin) == len(s)
        if is_stream(cls):
            ok = ok and (0 <= s._pos) and (s._pos <= len(s))
        return K.check(ok, 'constructor returned an invalid object', kw=kwname)
    return h


ARRAY_METHODS = {'append': 'V2', 'extend': 'L', 'insert': 'I V2', 'pop': 'OI', 'reverse': '', 'count': 'V2', 'tolist': '', 'byteswap': '', 'tobytes': '', 'equals': 'V2', 'astype': 'DT', '__getitem__': 'K',
                 '__setitem__': 'K V2', '__delitem__': 'K', '__len__': '', '__iter__': '', '__repr__': '', '__copy__': '', '__add__': 'V2', '__sub__': 'V2', '__mul__': 'V2', '__floordiv__': 'V2',
                 '__truediv__': 'V2', '__lshift__': 'V2', '__rshift__': 'V2', '__mod__': 'V2', '__and__': 'BS', '__or__': 'BS', '__xor__': 'BS', '__eq__': 'V2', '__ne__': 'V2', '__lt__': 'V2',
                 '__neg__': '', '__abs__': '', '__iadd__': 'V2', '__imul__': 'V2', '__ifloordiv__': 'V2', '__iand__': 'BS', 'pp': 'F W'}


def h_array(dtype, mname, k, t):
    def h(K):
        import bitstring
        a = bitstring.Array(dtype)
        w = a.itemsize
        arith_m = (mname.startswith('__') and mname not in ('__getitem__', '__setitem__', '__delitem__', '__len__', '__iter__', '__repr__', '__copy__')) or mname in ('astype', 'pp')
        if arith_m:
            # element-wise operators are audited on concrete data patterns with catalogue operands: arithmetic on symbolic items with symbolic or huge
            # operands is beyond the solver (non-linear) and CrossHair's symbolic int model (true division by 10**400), and ended inconclusive
            pat = K.choice('data', ['zeros', 'ones', 'mixed'])
            nb = w * k + t
            x = O.from01({'zeros': '0' * nb, 'ones': '1' * nb, 'mixed': ('0110100111000101' * nb)[:nb]}[pat])
        else:
            x = K.bits('data', w * k + t)
        a.data = mk(K, bitstring.BitArray, x)
        opts = (bitstring.options.lsb0, bitstring.options.bytealigned, bitstring.options.mxfp_overflow)
        args = []
        for i, c in enumerate(ARRAY_METHODS[mname].split()):
            if c == 'V2':
                arith = mname.startswith('__') and mname not in ('__getitem__', '__setitem__', '__delitem__')     # (same set as arith_m minus astype/pp)
                # element-wise operators: the scalar comes from a catalogue (symbolic x symbolic arithmetic is beyond the solver and ends inconclusive)
                args.append((K.choice(f'a{i}i', [-3, 0, 1, 2, 40]) if (LIGHT[0] or arith) else K.int(f'a{i}', -40, 40)) if K.bool(f'a{i}?int') else
                            K.choice(f'a{i}', [1.5, 'ff', None, b'\x01', [1, 2], True, 0, float('nan'), float('inf'), -float('inf'), -0.0, 1e308] + ([10 ** 400] if mname in ('__add__', '__sub__', '__mul__', '__setitem__', 'append', 'insert') else [])))
            elif c == 'L':
                args.append(K.choice(f'a{i}', [[], [1], [1, 'x'], 'ab', b'\x01', 5, None]))
            elif c == 'DT':
                args.append(K.choice(f'a{i}', ['uint8', 'int8', 'float16', 'zzz', 'ue', 'bin', 'hex4', 'uint:0', 'bool']))
            elif c == 'BS':
                args.append(K.choice(f'a{i}', ['0b1', '0x00', '', 'zz', 5, None]) if not K.bool(f'a{i}?sym') else mk(K, bitstring.Bits, K.bits(f'a{i}b', w)))
            elif c == 'W':
                args.append(K.choice(f'a{i}', [-5, 0, 8, 60, 200]))
            else:
                args.append(_arg(K, c, a.data, i))
        if mname == 'pp':
            args = [args[0], args[1], True, io.StringIO()]
        if arith_m and mname.startswith('__') and ARRAY_METHODS[mname] == 'V2' and K.bool('array_operand'):
            # Array (op) Array: equal and unequal lengths, zeros (division), another dtype
            kind = K.choice('operand', ['zeros', 'ones', 'short', 'other-dtype', 'float-zeros'])
            args = [{'zeros': lambda: bitstring.Array(dtype, [0] * k), 'ones': lambda: bitstring.Array(dtype, [1] * k), 'short': lambda: bitstring.Array(dtype, [1] * (k + 1)),
                     'other-dtype': lambda: bitstring.Array('int16', [0, -3][:k] + [0] * max(0, k - 2)), 'float-zeros': lambda: bitstring.Array('float32', [0.0] * k)}[kind]()]

        def go():
            r = get_attr(a, mname)(*args)
            if hasattr(r, '__next__'):
                r = list(r)
            return r
        r = call(go)
        if not r.ok and not (_documented(r.exc) or isinstance(r.exc, EOFError)):      # EOFError: documented for fromfile (mirrors array.array)
            return K.fail('an internal (undocumented) exception escaped from an Array method', method=mname, exc=r.excname, dtype=dtype)
        now = (bitstring.options.lsb0, bitstring.options.bytealigned, bitstring.options.mxfp_overflow)
        ok = now == opts and len(a.data.bin) == len(a.data) and isinstance(a.data, bitstring.BitArray)
        return K.check(ok, 'Array invalid after the call or options changed', method=mname)
    return h


ARRAY_DTYPES = {
    'uint:0': lambda B: 'uint:0', 'pad:0': lambda B: 'pad:0', 'bits:0': lambda B: 'bits:0', 'hex0': lambda B: 'hex0', 'u8': lambda B: 'u8', 'ue': lambda B: 'ue', 'bin': lambda B: 'bin', 'zzz': lambda B: 'zzz',
    'float:15': lambda B: 'float:15', 'bool': lambda B: 'bool', '>H': lambda B: '>H', 'pad:3': lambda B: 'pad:3', 'bytes:0': lambda B: 'bytes:0', "Dtype('ue')": lambda B: B.Dtype('ue'),
    "Dtype('uint', 0)": lambda B: B.Dtype('uint', 0), "Dtype('bin')": lambda B: B.Dtype('bin'), "Dtype('float16', scale='auto')": lambda B: B.Dtype('float16', scale='auto'),
    "Dtype('e4m3mxfp', scale='auto')": lambda B: B.Dtype('e4m3mxfp', scale='auto'), "Dtype('uint8', scale=0)": lambda B: B.Dtype('uint8', scale=0), "Dtype('uint8', scale=-2)": lambda B: B.Dtype('uint8', scale=-2),
    "Dtype('bfloat', scale='auto')": lambda B: B.Dtype('bfloat', scale='auto'),
}


def h_array_ctor(dkey):
    """Array construction with adversarial dtypes and initialisers, then the basic protocol on whatever was created: no arithmetic is involved, so only the
    documented exception types are acceptable (ZeroDivisionError / OverflowError are internal errors here)"""
    def h(K):
        import bitstring
        mk_dtype = ARRAY_DTYPES[dkey]
        rd = call(lambda: mk_dtype(bitstring))
        if not rd.ok:
            return K.check(_documented(rd.exc), 'an internal (undocumented) exception escaped from Dtype()', exc=rd.excname, dtype=dkey)
        init = K.choice('init', ['none', 'empty', 'zeros', 'inf', 'nan', 'huge', 'count', 'bytes', 'str', 'neg', 'bits', 'mixed'])
        iv = {'none': None, 'empty': [], 'zeros': [0, 0], 'inf': [float('inf')], 'nan': [float('nan'), 1.0], 'huge': [1e308, -1e308], 'count': 3, 'bytes': b'ab', 'str': 'x', 'neg': -1,
              'bits': bitstring.Bits('0b101'), 'mixed': [1, 'x', None]}[init]
        if init in ('inf', 'nan', 'huge') and not any(f in dkey for f in ('float', 'mxfp', 'bfloat')):
            return True        # a float is not a value of the documented type for a non-float dtype: outside the property
        tb = K.choice('trailing', [None, '0b1', 'zz'])
        r = call(lambda: bitstring.Array(rd.value, iv, tb))
        if not r.ok:
            return K.check(_documented(r.exc), 'an internal (undocumented) exception escaped from Array()', exc=r.excname, dtype=dkey, init=init)
        a = r.value
        opts = (bitstring.options.lsb0, bitstring.options.bytealigned, bitstring.options.mxfp_overflow)
        ops = {'len': lambda: len(a), 'repr': lambda: repr(a), 'itemsize': lambda: a.itemsize, 'tolist': lambda: a.tolist(), 'append0': lambda: a.append(0), "append''": lambda: a.append(''),
               'getitem0': lambda: a[0], 'trailing': lambda: a.trailing_bits, 'iter': lambda: list(a), 'copy': lambda: a.__copy__(), 'equals': lambda: a.equals(a), 'pop': lambda: a.pop(),
               'pp': lambda: a.pp(K.choice('ppfmt', [None, 'hex:0', 'bin', 'uint:0, hex', 'hex4', 'pad:0', 'zzz']), 40, True, io.StringIO()),
               'set-dtype': lambda: set_attr(a, 'dtype', K.choice('nd', ['uint:0', 'u8', 'ue', 'zzz']))}
        what = K.choice('then', list(ops))
        rr = call(ops[what])
        if not rr.ok and not _documented(rr.exc):
            return K.fail('an internal (undocumented) exception escaped from a basic Array operation', op=what, exc=rr.excname, dtype=dkey, init=init)
        ok = (bitstring.options.lsb0, bitstring.options.bytealigned, bitstring.options.mxfp_overflow) == opts and isinstance(a.data, bitstring.BitArray) and len(a.data.bin) == len(a.data)
        if ok and a.dtype.scale == 'auto':
            return K.fail("an Array was left with an 'auto' scale dtype (documented as usable only at creation)", op=what, dtype=dkey)
        return K.check(ok, 'Array invalid after the call or options changed', op=what)
    return h


def _table_complete():
    """every public callable of the four classes must be in METHODS or SKIP"""
    import bitstring
    missing = []
    for cls in (bitstring.Bits, bitstring.BitArray, bitstring.ConstBitStream, bitstring.BitStream):
        for nm, v in inspect.getmembers(cls):
            if callable(v) and not isinstance(v, property) and (not nm.startswith('_') or (nm.startswith('__') and nm.endswith('__'))):
                if nm not in METHODS and nm not in SKIP and not nm.startswith('_get') and not nm.startswith('_set'):
                    missing.append(f'{cls.__name__}.{nm}')
    return sorted(set(missing))


def h_table():
    def h(K):
        m = _table_complete()
        return K.check(not m, 'public callables missing from the audit table (harness must be extended)', missing=m)
    return h


def conditions(tier):
    q = tier == 'quick'
    conds = []
    T = 150 if q else 450
    LIGHT[0] = q

    def add(cid, fn, bounds, **params):
        conds.append(Cond(cid, fn, bounds, D, params, timeout=T, setup=F.install_fakes))

    add('C20.method-table', h_table(), 'introspection of the live classes')
    import bitstring
    for cname in CLS:
        cls = getattr(bitstring, cname)
        for mname in METHODS:
            if not hasattr(cls, mname):
                continue
            for lsb0 in (False, True):
                if q and lsb0 and cname in ('ConstBitStream', 'BitStream') and mname not in ('read', 'readlist', 'find', 'insert', 'overwrite', '__setitem__', 'set', 'append'):
                    continue
                if q and cname == 'ConstBitStream' and mname not in ('read', 'peek', 'readlist', 'peeklist', 'readto', 'bytealign', 'find', 'rfind', '__getitem__', '__add__', '__and__', 'copy'):
                    continue
                if q and cname == 'Bits' and lsb0 and mname.startswith('__') and mname not in ('__getitem__',):
                    continue
                for n in (([3, 6] if (mname in ('read', 'readlist', 'peek', 'peeklist', 'unpack') and not lsb0) else [3]) if q else ([0, 6] if mname in ('read', 'readlist', 'peek', 'peeklist', 'unpack', '__getitem__', 'find', 'cut') else [6])):
                    add(f"C20.call[{cname}.{mname},n={n}{',lsb0' if lsb0 else ''}]", h_method(cname, mname, n, lsb0),
                        f'all {n}-bit contents, all positions x symbolic/catalogue arguments ({METHODS[mname] or "no arguments"})', cls=cname, method=mname, lsb0=lsb0)
    for cname in (['BitStream'] if q else ['BitArray', 'BitStream']):
        for first in ([('append', ('0b1',)), ('clear', ()), ('read' if cname == 'BitStream' else 'invert', (3,) if cname == 'BitStream' else ()), ('replace', ('0b1', '0b00'))] if q else
                      [('clear', ()), ('read' if cname == 'BitStream' else 'invert', (3,) if cname == 'BitStream' else ())]):
            for mname in (['read', 'insert', 'overwrite', 'readlist', 'rol', 'byteswap'] if q else [m for m in METHODS if hasattr(getattr(bitstring, cname), m)]):
                if not hasattr(getattr(bitstring, cname), mname) or not hasattr(getattr(bitstring, cname), first[0]):
                    continue
                add(f'C20.sequence[{cname}.{first[0]};{mname}]', h_method(cname, mname, 3 if q else 5, False, first), 'two-call sequence on one object', cls=cname, method=mname, first=first[0])
    for fmt in (FMT_Q if q else FMT) + ['uint:n', 'uint:n=v', 'hex=v', 'bits:n', '2*uint:4', 'n*uint:2', 'float:32', 'ue, se']:
        add(f'C20.pack[{fmt!r}]', h_pack(fmt), 'format (possibly malformed) x 0-2 positional values x keyword arguments')
    for tok in (['uint', 'float', 'bytes', 'ue', 'zzz', 'hex:5', 'e4m3mxfp', 'uint:3', 'pad', ''] if q else list(dict.fromkeys(FMT + ['uint', 'int', 'float', 'bytes', 'pad', 'bits', 'hex', 'e8m0mxfp', 'mxint', 'uintne']))):
        add(f'C20.Dtype[{tok!r}]', h_dtype(tok), 'token x length catalogue x scale catalogue; build/parse/str/repr/eq/hash')
    for cname in (['Bits', 'BitStream'] if q else CLS):
        for kwname in ['auto-str', 'auto-int', 'uint', 'int', 'hex', 'bin', 'bytes', 'float', 'bool', 'ue', 'bits', 'bitarray', 'uintle', 'e4m3mxfp', 'nonsense', 'filename', 'auto']:
            if q and cname == 'BitStream' and kwname not in ('auto-str', 'uint', 'bytes', 'bitarray', 'hex'):
                continue
            add(f'C20.constructor[{cname},{kwname}]', h_ctor(cname, kwname), 'initialiser kind x length in [-2,70] or None x offset in [-2,20] or None x every int pos')
    for cname in (['Bits', 'BitStream'] if q else CLS):
        for lsb0 in (False, True):
            for n in ([9] if q else [0, 9, 24]):
                add(f"C20.pp-args[{cname},n={n}{',lsb0' if lsb0 else ''}]", h_pp_args(cname, n, lsb0), f'two {n}-bit contents x {len(PP_FMTS)} formats x 3 separators x 5 widths x show_offset', cls=cname)
    for dk in ARRAY_DTYPES:
        add(f'C20.array-ctor[{dk}]', h_array_ctor(dk), 'dtype x 12 initialisers x trailing bits x 14 follow-up operations (catalogues chosen by solver forks)', dtype=dk)
    for dtype in (['uint5', 'float16'] if q else ['uint5', 'int8', 'float16', 'hex4', 'bytes2']):
        for mname in ARRAY_METHODS:
            if q and dtype == 'float16' and mname not in ('append', 'count', '__setitem__', '__add__', '__truediv__', '__lt__'):
                continue
            if q and mname in ('__mod__', 'pp', '__sub__', '__rshift__', '__ne__', '__imul__', '__ifloordiv__') and dtype != 'uint5':
                continue
            for (k, t) in ([(2, 3)] if q else [(0, 0), (2, 3)]):
                add(f'C20.array[{dtype}.{mname},k={k},t={t}]', h_array(dtype, mname, k, t), 'symbolic data x catalogue/symbolic arguments', dtype=dtype, method=mname)
    return conds
