"""C10 - exponential-Golomb codes: exact codewords, self-delimiting streams."""
from __future__ import annotations

from kit.engine import Cond
from kit import oracle as O
from kit import logic as L
from kit.state import mk, raw, call, classes, is_stream, is_mutable, same, get_attr

ASSUMPTIONS = [
    "ue/se encoders: one condition per bit-length class k; inside a class the value is one solver variable (every v with v+1 in [2^k, 2^(k+1)))",
    "uie/sie encoders call bin() on the value, which concretises it: values are solver-enumerated in the stated range",
    "decoder totality: the input is every bit string of the stated length and every start position; paths fork on control bits only for ue/se "
    "(and on every bit for uie/sie, because the real decoder converts each data bit to a Python bool)",
    "the oracle never equates two different Int2BV terms; numeric fields are compared on the integer side through ba2int",
]

D_ENC = ['bitstring.bitstore_helpers:ue2bitstore', 'bitstring.bitstore_helpers:se2bitstore', 'bitstring.bitstore_helpers:uie2bitstore',
         'bitstring.bitstore_helpers:sie2bitstore', 'bitstring.bitstore_helpers:int2bitstore', 'bitstring.bits:Bits._setue', 'bitstring.bits:Bits._setse',
         'bitstring.bits:Bits._setuie', 'bitstring.bits:Bits._setsie']
D_DEC = ['bitstring.bits:Bits._readue', 'bitstring.bits:Bits._readse', 'bitstring.bits:Bits._readuie', 'bitstring.bits:Bits._readsie',
         'bitstring.bits:Bits._getue', 'bitstring.bits:Bits._getse', 'bitstring.bits:Bits._getuie', 'bitstring.bits:Bits._getsie',
         'bitstring.dtypes:DtypeDefinition.__init__', 'bitstring.bitstream:ConstBitStream.read', 'bitstring.bits:Bits._read_dtype_list']

CODES = ['ue', 'se', 'uie', 'sie']


# ----------------------------------------------------------------- reference codewords (H.264 9.1 / Dirac A.4)
def ue_shape_ok(K, bits, u, k):
    """codeword of codeNum u with u+1 in [2^k, 2^(k+1)):  0^k 1 bin_k(u+1-2^k)"""
    import bitarray.util as U
    if len(bits) != 2 * k + 1:
        return False
    ok = same(bits[:k], O.zeros(k)) and same(bits[k:k + 1], O.ones(1))
    if k:
        ok = ok and (U.ba2int(bits[k + 1:]) == u + 1 - (1 << k))
    return ok


def se_to_codenum(v):
    """H.264 table 9-3: v > 0 -> 2v-1, v <= 0 -> -2v"""
    return 2 * v - 1 if v > 0 else -2 * v


def ref_uie_bits(u):
    """Dirac interleaved exp-Golomb of u >= 0 (concrete): for each bit below the leading one of u+1: '0' bit; then '1'"""
    b = bin(u + 1)[3:]
    return O.from01(''.join('0' + c for c in b) + '1')


def ref_sie_bits(v):
    if v == 0:
        return O.from01('1')
    return O.ref_concat(ref_uie_bits(abs(v)), O.from01('1' if v < 0 else '0'))


# ----------------------------------------------------------------- reference decoders (forking on control bits)
def ref_dec_ue(K, x, pos):
    import bitarray.util as U
    n = len(x)
    p = pos
    while p < n and x[p] == 0:
        p += 1
    if p >= n:
        return None
    k = p - pos
    if p + 1 + k > n:
        return None
    val = (1 << k) - 1
    if k:
        val = val + U.ba2int(x[p + 1:p + 1 + k])
    return val, p + 1 + k


def ref_dec_se(K, x, pos):
    r = ref_dec_ue(K, x, pos)
    if r is None:
        return None
    u, p = r
    # inverse of se_to_codenum: odd u -> (u+1)/2, even u -> -u/2
    v = (u + 1) // 2 if u % 2 else -(u // 2)
    return v, p


def ref_dec_uie(K, x, pos):
    n = len(x)
    p = pos
    code = 1
    while True:
        if p >= n:
            return None
        if x[p] == 1:
            p += 1
            break
        p += 1
        if p >= n:
            return None
        code = 2 * code + x[p]
        p += 1
    return code - 1, p


def ref_dec_sie(K, x, pos):
    r = ref_dec_uie(K, x, pos)
    if r is None:
        return None
    u, p = r
    if u == 0:
        return 0, p
    if p >= len(x):
        return None
    return (-u if x[p] == 1 else u), p + 1


REF_DEC = {'ue': ref_dec_ue, 'se': ref_dec_se, 'uie': ref_dec_uie, 'sie': ref_dec_sie}


def _se_value_in_class(K, lo, hi):
    """every signed v whose codeNum (2v-1 for v > 0, -2v otherwise) lies in [lo, hi]; linear in v, no division"""
    if K.bool('positive'):
        a, b = (lo + 2) // 2, (hi + 1) // 2
        if a > b:
            return None, None
        v = K.int('v', a, b, edges=2)
        return v, 2 * v - 1
    a, b = -(hi // 2), -((lo + 1) // 2)
    if a > b:
        return None, None
    v = K.int('v', a, b, edges=2)
    return v, -2 * v


def _routes(cls, code, v):
    import bitstring
    return {
        'kw': lambda: cls(**{code: v}),
        'Dtype.build': lambda: bitstring.Dtype(code).build(v),
        'pack': lambda: bitstring.pack(code, v),
        'pack-kw': lambda: bitstring.pack(code + '=val', val=v),
    }


def h_enc_class(code, k, cname='Bits'):
    """ue/se encoder on a whole bit-length class, then decode round trip"""
    def h(K):
        import bitstring
        cls = classes()[cname]
        lo, hi = (1 << k) - 1, (1 << (k + 1)) - 2       # codeNum range of the class
        if code == 'ue':
            v = K.int('v', lo, hi, edges=2)
            u = v
        else:
            v, u = _se_value_in_class(K, lo, hi)
            if v is None:
                return True
        first = None
        for rn, g in _routes(cls, code, v).items():
            r = call(g)
            if not r.ok:
                return K.fail('encoder raised for a value of its domain', route=rn, exc=r.excname)
            bits = raw(r.value)
            if not K.check(ue_shape_ok(K, bits, u, k), 'codeword is not 0^k 1 bin_k(codeNum+1-2^k)', route=rn, got=bits, k=k):
                return False
            if first is None:
                first = bits
            elif not K.check(same(bits, first), 'routes disagree', route=rn):
                return False
        s = mk(K, bitstring.ConstBitStream, first)
        for rd, g in {'property': lambda: get_attr(s, code), 'read': lambda: s.read(code), 'unpack': lambda: s.unpack(code)[0],
                      'Dtype.parse': lambda: bitstring.Dtype(code).parse(s)}.items():
            s._pos = 0
            r = call(g)
            if not r.ok:
                return K.fail('decoding the codeword raised', route=rd, exc=r.excname)
            if not K.check(r.value == v, 'decode(encode(v)) != v', route=rd, got=r.value):
                return False
            if rd == 'read' and s._pos != 2 * k + 1:
                return K.fail('read did not advance by exactly one codeword', got=s._pos)
        return True
    return h


def h_enc_enum(code, lo, hi, cname='Bits'):
    """uie/sie (and small ue/se): values enumerated by the solver; codeword equals the reference bit for bit"""
    def h(K):
        import bitstring
        cls = classes()[cname]
        v = K.conc(K.int('v', lo, hi))
        if code == 'uie':
            exp = ref_uie_bits(v)
        elif code == 'sie':
            exp = ref_sie_bits(v)
        elif code == 'ue':
            exp = O.from01('0' * ((v + 1).bit_length() - 1) + bin(v + 1)[2:])
        else:
            u = se_to_codenum(v)
            exp = O.from01('0' * ((u + 1).bit_length() - 1) + bin(u + 1)[2:])
        for rn, g in _routes(cls, code, v).items():
            r = call(g)
            if not r.ok:
                return K.fail('encoder raised', route=rn, exc=r.excname, v=v)
            if not K.check(same(raw(r.value), exp), 'codeword differs from the standard', route=rn, got=raw(r.value), expected=exp, v=v):
                return False
        r = call(lambda: cls(f'{code}={v}'))
        if not K.check(r.ok and same(raw(r.value), exp), 'token string with embedded value', exc=r.excname):
            return False
        s = mk(K, bitstring.ConstBitStream, exp)
        r = call(lambda: s.read(code))
        return K.check(r.ok and r.value == v and s._pos == len(exp), 'decode(encode(v)) or position', got=r.value, pos=s._pos)
    return h


def h_enc_history(code):
    """the codeword of v does not depend on what was done to bitstrings encoded from v earlier (memoised encoders must not hand out shared mutable stores);
    runs with the real lru caches (env.live_caches) on concrete values chosen by solver forks"""
    def h(K):
        import bitstring
        from kit import env
        env.clear_caches()
        v = K.choice('v', [0, 1, 2, 3, 6, 7] if code in ('ue', 'uie') else [0, 1, -1, 2, -3, 4])
        u = v if code in ('ue', 'uie') else se_to_codenum(v)
        exp = (O.from01('0' * ((u + 1).bit_length() - 1) + bin(u + 1)[2:]) if code in ('ue', 'se') else (ref_uie_bits(v) if code == 'uie' else ref_sie_bits(v)))
        first = K.choice('first', ['kw-BitArray', 'kw-BitStream', 'prop', 'pack', 'str-BitArray', 'build'])
        mut = K.choice('mutation', ['append', 'invert', 'setitem', 'clear', 'overwrite'])
        makers = {'kw-BitArray': lambda: bitstring.BitArray(**{code: v}), 'kw-BitStream': lambda: bitstring.BitStream(**{code: v}), 'prop': lambda: _via_prop(bitstring.BitArray, code, v),
                  'pack': lambda: bitstring.pack(code, v), 'str-BitArray': lambda: bitstring.BitArray(f'{code}={v}'), 'build': lambda: bitstring.BitArray(bitstring.Dtype(code).build(v))}
        r0 = call(makers[first])
        if not r0.ok:
            return K.fail('encoder raised', route=first, exc=r0.excname)
        a = r0.value
        muts = {'append': lambda: a.append('0b1'), 'invert': lambda: a.invert(), 'setitem': lambda: a.__setitem__(0, 1 - int(a[0])), 'clear': lambda: a.clear(), 'overwrite': lambda: a.overwrite('0b1', 0)}
        call(muts[mut])
        for rn, g in _routes(bitstring.Bits, code, v).items():
            r = call(g)
            if not K.check(r.ok and same(raw(r.value), exp), 'the codeword of a value changed after a bitstring encoded from the same value was mutated', route=rn, first=first, mutation=mut, v=v,
                           got=raw(r.value) if r.ok else None, expected=exp):
                return False
        s = call(lambda: bitstring.BitArray(**{code: v}))
        return K.check(s.ok and same(raw(s.value), exp), 'keyword route after a mutation', v=v)
    return h


def _via_prop(cls, code, v):
    from kit.state import set_attr
    o = cls()
    set_attr(o, code, v)
    return o


def h_negative(code):
    def h(K):
        import bitstring
        v = K.int('v', None, -1)
        for rn, g in _routes(bitstring.Bits, code, v).items():
            r = call(g)
            if r.ok or not r.raised(ValueError):
                return K.fail('negative value for an unsigned code must raise CreationError (ValueError)', route=rn, exc=r.excname)
        return True
    return h


def h_decode_total(code, n, pos, cname='ConstBitStream', via='read', bytealigned=False):
    def h(K):
        import bitstring
        cls = classes()[cname]
        x = K.bits('x', n)
        s = mk(K, cls, x, pos)
        exp = REF_DEC[code](K, x, pos)
        bitstring.options.bytealigned = bytealigned      # a codeword starts wherever the position is: the search option has no say (engine restores it)
        if via == 'read':
            r = call(lambda: s.read(code))
        elif via == 'readlist':
            r = call(lambda: s.readlist([code])[0])
        elif via == 'peeklist':
            r = call(lambda: s.peeklist(code)[0])
        else:  # unpack on the tail, then a fixed token: the position bookkeeping of _read_dtype_list
            r = call(lambda: s.readlist(code + ', bits:0')[0])
        if exp is None:
            ok = (not r.ok) and isinstance(r.exc, bitstring.ReadError) and s._pos == pos and same(raw(s), x)
            return K.check(ok, 'truncated or absent codeword must raise ReadError and leave pos unchanged', exc=r.excname, got=r.value, pos=s._pos, via=via)
        v, newpos = exp
        if not r.ok:
            return K.fail('read raised on a complete codeword', exc=r.excname, expected=v, via=via)
        exp_pos = pos if via == 'peeklist' else newpos
        return K.check((r.value == v) and s._pos == exp_pos and same(raw(s), x), 'decoded value / consumed length differ from the standard',
                       got=r.value, expected=v, pos=s._pos, expected_pos=exp_pos, via=via)
    return h


def h_whole_value(code, n):
    """the whole-bitstring property accepts exactly one codeword with nothing left over"""
    def h(K):
        import bitstring
        x = K.bits('x', n)
        s = mk(K, bitstring.Bits, x)
        exp = REF_DEC[code](K, x, 0)
        r = call(lambda: get_attr(s, code))
        if exp is None or exp[1] != n:
            return K.check(r.raised(ValueError), 'truncated codeword or codeword followed by extra bits must raise InterpretError (ValueError)', exc=r.excname, got=r.value)
        return K.check(r.ok and r.value == exp[0], 'whole-bitstring interpretation', got=r.value, expected=exp[0])
    return h


def h_self_delimiting(code, k, m):
    """encode(v) ++ Y: reading returns v and stops exactly at the end of the codeword, whatever follows"""
    def h(K):
        import bitstring
        if code in ('ue', 'se'):
            lo, hi = (1 << k) - 1, (1 << (k + 1)) - 2
            u = K.int('u', lo, hi) if code == 'ue' else None
            if code == 'ue':
                v = u
            else:
                v, u = _se_value_in_class(K, lo, hi)
                if v is None:
                    return True
        else:
            v = K.conc(K.int('v', -k if code == 'sie' else 0, k))
        cw = raw(bitstring.Bits(**{code: v}))
        y = K.bits('y', m)
        s = mk(K, bitstring.ConstBitStream, O.ref_concat(cw, y))
        r = call(lambda: s.read(code))
        if not K.check(r.ok and r.value == v and s._pos == len(cw), 'codeword followed by arbitrary bits: value or position wrong', got=r.value, pos=s._pos, exc=r.excname):
            return False
        # truncation: every proper prefix of the codeword raises ReadError, pos unchanged
        for cut in range(len(cw)):
            t = mk(K, bitstring.ConstBitStream, cw[:cut])
            r = call(lambda: t.read(code))
            if not ((not r.ok) and isinstance(r.exc, bitstring.ReadError) and t._pos == 0):
                return K.fail('truncated codeword did not raise ReadError with pos unchanged', cut=cut, exc=r.excname, got=r.value)
        return True
    return h


def h_sequence(codes, vmax):
    def h(K):
        import bitstring
        vals = []
        for i, c in enumerate(codes):
            vals.append(K.conc(K.int(f'v{i}', -vmax if c in ('se', 'sie') else 0, vmax)))
        fmt = ', '.join(codes)
        r = call(lambda: bitstring.pack(fmt, *vals))
        if not r.ok:
            return K.fail('pack raised', exc=r.excname)
        s = r.value
        exp = O.ref_concat(*[raw(bitstring.Bits(**{c: v})) for c, v in zip(codes, vals)])
        if not K.check(same(raw(s), exp), 'pack of several codes is not the concatenation of the codewords'):
            return False
        r = call(lambda: s.unpack(fmt))
        if not K.check(r.ok and r.value == vals, 'unpack does not return the packed values', got=r.value, exc=r.excname):
            return False
        t = bitstring.ConstBitStream(s)
        p = 0
        for c, v in zip(codes, vals):
            r = call(lambda: t.read(c))
            p += len(bitstring.Bits(**{c: v}))
            if not (r.ok and r.value == v and t._pos == p):
                return K.fail('sequential read: value or position wrong', code=c, got=r.value, pos=t._pos)
        t._pos = 0
        r = call(lambda: t.readlist(fmt))
        return K.check(r.ok and r.value == vals and t._pos == len(s), 'readlist over mixed codes', got=r.value, pos=t._pos)
    return h


def conditions(tier):
    q = tier == 'quick'
    conds = []
    T = 200 if q else 450

    def add(cid, fn, bounds, drives, **params):
        conds.append(Cond(cid, fn, bounds, drives, params, timeout=T))

    ks = [0, 1, 2, 3, 7, 8, 15, 16, 31, 63] if q else list(range(0, 66)) + [100, 127, 128, 199]
    for code in ('ue', 'se'):
        for k in ks:
            add(f'C10.encode[{code},k={k}]', h_enc_class(code, k), f'every value whose codeNum+1 lies in [2^{k}, 2^{k + 1}); 4 creation routes, 4 decoding routes', D_ENC + D_DEC, code=code, k=k)
    for code, lo, hi in (('uie', 0, 40 if q else 600), ('sie', -30 if q else -400, 30 if q else 400), ('ue', 0, 20 if q else 200), ('se', -15 if q else -120, 15 if q else 120)):
        add(f'C10.encode-enum[{code},{lo}..{hi}]', h_enc_enum(code, lo, hi), f'every value in [{lo},{hi}] (solver-enumerated) against the bit-exact reference codeword', D_ENC + D_DEC, code=code)
    from kit import env as _env
    for code in CODES:
        conds.append(Cond(f'C10.encode-history[{code}]', h_enc_history(code), '6 values x 6 first routes x 5 mutations (concrete, chosen by solver forks) x every encoding route afterwards; live lru caches', D_ENC, {'code': code}, timeout=T, setup=_env.live_caches))
    for code in ('ue', 'uie'):
        add(f'C10.negative[{code}]', h_negative(code), 'every negative Python int', D_ENC, code=code)
    for code in CODES:
        n = (12 if code in ('ue', 'se') else 8) if q else (20 if code in ('ue', 'se') else 12)
        for pos in ([0, 3, n] if q else list(range(0, n + 1))):
            add(f'C10.decode-total[{code},n={n},pos={pos}]', h_decode_total(code, n, pos), f'every {n}-bit string, start position {pos}', D_DEC, code=code, n=n, pos=pos)
        for via in ('readlist', 'peeklist', 'readlist2'):
            nn = 8 if q else 12
            # interleaved codewords have odd length (+1 sign bit for sie): both parities of n - pos are needed to end the data exactly at the sign bit
            for pos in (([0, 1, 2] if code in ('uie', 'sie') else [0, 2]) if q else [0, 1, 2, 5]):
                add(f'C10.decode-total-{via}[{code},n={nn},pos={pos}]', h_decode_total(code, nn, pos, via=via), f'every {nn}-bit string, start position {pos}, through {via}', D_DEC, code=code, n=nn, pos=pos)
        for pos in ([1] if q else [0, 1, 3, 8]):
            add(f'C10.decode-total[{code},n={n},pos={pos},options.bytealigned]', h_decode_total(code, n, pos, bytealigned=True), f'every {n}-bit string, start position {pos}, options.bytealigned set', D_DEC, code=code, n=n, pos=pos)
        for m in ([0, 1, 5, 9] if q else list(range(0, 13))):
            add(f'C10.whole-value[{code},n={m}]', h_whole_value(code, m), f'every {m}-bit string interpreted through the whole-bitstring property', D_DEC, code=code, n=m)
    for code in ('ue', 'se'):
        for k in ([0, 2, 5] if q else [0, 1, 2, 3, 5, 8, 12]):
            add(f'C10.self-delimiting[{code},k={k}]', h_self_delimiting(code, k, 4 if q else 8), f'every value of class k={k} followed by every {4 if q else 8}-bit suffix; every truncation', D_ENC + D_DEC, code=code, k=k)
    for code in ('uie', 'sie'):
        add(f'C10.self-delimiting[{code}]', h_self_delimiting(code, 9 if q else 40, 3 if q else 6), f'values up to {9 if q else 40} followed by every suffix; every truncation', D_ENC + D_DEC, code=code)
    for codes in ([('ue', 'se', 'uie'), ('sie', 'ue')] if q else [('ue', 'se', 'uie'), ('sie', 'ue'), ('uie', 'sie', 'se'), ('se', 'se', 'ue'), ('ue', 'uie', 'sie')]):
        add(f"C10.sequence[{'+'.join(codes)}]", h_sequence(list(codes), 3 if q else 6), f'all value tuples with |v| <= {3 if q else 6}', D_ENC + D_DEC + ['bitstring.methods:pack'], codes='+'.join(codes))
    return conds
