"""C07 - search, split and count results equal the brute-force definition."""
from __future__ import annotations

from kit.engine import Cond
from kit import oracle as O
from kit import logic as L
from kit.state import mk, raw, call, classes, is_stream, is_mutable, same
from harness.common import CLS, _obj, _unchanged

ASSUMPTIONS = [
    "candidate match positions are concrete inside the bitarray model (one solver fork per candidate), so findall/split/replace explore 2^candidates paths; data lengths are bounded accordingly",
    "the 8192-bit reverse chunking lives in the lsb0 path and is C12's subject",
]

D_FIND = ['bitstring.bits:Bits.find', 'bitstring.bits:Bits.rfind', 'bitstring.bits:Bits.findall', 'bitstring.bits:Bits._find_msb0', 'bitstring.bits:Bits._rfind_msb0',
          'bitstring.bits:Bits._findall_msb0', 'bitstring.bits:Bits.__contains__', 'bitstring.bitstore:BitStore.find', 'bitstring.bitstore:BitStore.rfind',
          'bitstring.bitstore:BitStore.findall_msb0', 'bitstring.bitstore:BitStore.rfindall_msb0', 'bitstring.bits:Bits._validate_slice',
          'bitstring.bitstream:ConstBitStream.find', 'bitstring.bitstream:ConstBitStream.rfind']
D_MISC = ['bitstring.bits:Bits.startswith', 'bitstring.bits:Bits.endswith', 'bitstring.bits:Bits.count', 'bitstring.bits:Bits.cut', 'bitstring.bits:Bits.split',
          'bitstring.bits:Bits.all', 'bitstring.bits:Bits.any', 'bitstring.bits:Bits._slice', 'bitstring.bitstore:BitStore.getslice_msb0', 'bitstring.bitstore:BitStore.count',
          'bitstring.bitstore:BitStore.all_set', 'bitstring.bitstore:BitStore.any_set']


def _matches(K, x, pat, s0, e0, aligned):
    m = len(pat)
    out = []
    for p in range(s0, e0 - m + 1):
        if aligned and p % 8:
            continue
        if O.occurs_at(x, pat, p):
            out.append(p)
    return out


def _align_args(K, mode):
    """returns (kwargs for the call, effective alignment); sets options.bytealigned.
    mode 'off': default arguments, option off.  'on': each way of asking for alignment (explicit True with the option on/off,
    None or omitted with the option on).  'override': explicit False with the option on; None/omitted with the option off."""
    import bitstring
    if mode == 'off':
        bitstring.options.bytealigned = False
        return {}, False
    if mode == 'explicit':
        bitstring.options.bytealigned = False
        return {'bytealigned': True}, True
    if mode == 'on':
        ba, opt, omit = K.choice('align_how', [(True, False, False), (True, True, False), (None, True, False), (None, True, True)])
        eff = True
    else:
        ba, opt, omit = K.choice('align_how', [(False, True, False), (None, False, False), (None, False, True), (False, False, False)])
        eff = False
    bitstring.options.bytealigned = opt
    kw = {} if omit else {'bytealigned': ba}
    return kw, eff


def _window(K, n, lim, part=None):
    """part splits a condition by the kind of `start`: None = any, 'none' = omitted, 'neg' = [-lim,-1], 'pos' = [0, lim]"""
    if part is None:
        a = K.opt_int('start', -lim, lim)
    elif part == 'none':
        a = None
    elif part == 'neg':
        a = K.int('start', -lim, -1)
    else:
        a = K.int('start', 0, lim)
    return a, K.opt_int('end', -lim, lim)


PARTS = ['none', 'neg', 'pos']


def h_find(cname, n, m, mode, which, part=None):
    def h(K):
        import bitstring
        cls, x, pos, s = _obj(K, cname, n)
        pat = K.bits('pat', m)
        a, b = _window(K, n, n + 1, part)
        kw, aligned = _align_args(K, mode)
        pobj = mk(K, bitstring.Bits, pat)
        if which == 'findall':
            cnt = K.opt_int('count', -1, 3)
            r = call(lambda: list(s.findall(pobj, a, b, cnt, **kw)))
        elif which == 'find':
            r = call(lambda: s.find(pobj, a, b, **kw))
        else:
            r = call(lambda: s.rfind(pobj, a, b, **kw))
        s0, e0, valid = O.norm_range(n, a, b)
        bad = (m == 0) or (not valid)
        if which == 'findall' and cnt is not None and cnt < 0:
            bad = True
        if bad:
            return K.check(r.raised(ValueError) and same(raw(s), x), 'empty pattern / invalid range / negative count must raise ValueError', exc=r.excname, got=r.value)
        if not r.ok:
            return K.fail(which + ' raised', exc=r.excname)
        s0, e0 = K.conc(s0), K.conc(e0)
        # declarative brute-force definition over the concrete candidate set; one solver query, no fork per candidate
        cands = [p for p in range(s0, e0 - m + 1) if (not aligned or p % 8 == 0)]
        mt = {p: O.occurs_at(x, pat, p) for p in cands}
        v = r.value
        if which == 'findall':
            k = len(v)
            lim = None if cnt is None else K.conc(cnt)
            if lim is not None and k > lim:
                return K.fail('findall returned more than count matches', got=v)
            parts = []
            for i in range(k):
                parts.append(L.Or(*[L.And(v[i] == c, mt[c]) for c in cands]))
                if i:
                    parts.append(v[i - 1] < v[i])
            full = lim is not None and k == lim
            for c in cands:
                alts = [v[i] == c for i in range(k)]
                if full and k:
                    alts.append(c > v[k - 1])
                if full and k == 0:
                    alts.append(True)
                parts.append(L.Implies(mt[c], L.Or(*alts)))
            return K.check(L.And(*parts) and same(raw(s), x), 'findall must return every match in increasing order up to count', got=v, aligned=aligned, window=[s0, e0])
        if not isinstance(v, tuple) or len(v) > 1:
            return K.fail(which + ' must return an empty or one-element tuple', got=v)
        if len(v) == 0:
            ok = L.And(*[L.Not(mt[c]) for c in cands])
        else:
            p = v[0]
            ok = L.Or(*[L.And(p == c, mt[c]) for c in cands])
            if which == 'find':
                ok = L.And(ok, *[L.Implies(c < p, L.Not(mt[c])) for c in cands])
            else:
                ok = L.And(ok, *[L.Implies(c > p, L.Not(mt[c])) for c in cands])
        return K.check(ok and same(raw(s), x), which + ' result differs from the brute-force definition', got=v, aligned=aligned, window=[s0, e0])
    return h


def h_contains(cname, n, m):
    def h(K):
        import bitstring
        cls, x, pos, s = _obj(K, cname, n)
        pat = K.bits('pat', m)
        bitstring.options.bytealigned = K.bool('options.bytealigned')   # `in` must ignore the option
        r = call(lambda: mk(K, bitstring.Bits, pat) in s)
        if m == 0:
            return K.check(r.raised(ValueError), 'empty pattern must raise ValueError', exc=r.excname)
        if not r.ok:
            return K.fail('in raised', exc=r.excname)
        exp = L.Or(*[O.occurs_at(x, pat, p) for p in range(0, n - m + 1)])
        return K.check(L.Iff(r.value, exp) and _unchanged(K, s, x, pos), '`in` differs from the brute-force definition (or moved pos)', got=r.value)
    return h


def h_startsends(cname, n, m, ends):
    def h(K):
        import bitstring
        cls, x, pos, s = _obj(K, cname, n)
        pat = K.bits('pat', m)
        a, b = _window(K, n, n + 1)
        r = call(lambda: (s.endswith if ends else s.startswith)(mk(K, bitstring.Bits, pat), a, b))
        s0, e0, valid = O.norm_range(n, a, b)
        if not valid:
            return K.check(r.raised(ValueError), 'invalid range must raise ValueError', exc=r.excname)
        if not r.ok:
            return K.fail('startswith/endswith raised', exc=r.excname)
        s0, e0 = K.conc(s0), K.conc(e0)
        if s0 + m > e0:
            exp = False
        elif ends:
            exp = O.occurs_at(x, pat, e0 - m) if m else True
        else:
            exp = O.occurs_at(x, pat, s0) if m else True
        return K.check((r.value == exp) and _unchanged(K, s, x, pos), 'startswith/endswith', got=r.value, expected=exp)
    return h


def h_count(cname, n):
    def h(K):
        cls, x, pos, s = _obj(K, cname, n)
        v = K.choice('value', [0, 1, True, False, 2, '', 'x', None])
        r = call(lambda: s.count(v))
        if not r.ok:
            return K.fail('count raised', exc=r.excname)
        ones = 0
        for i in range(n):
            ones = ones + x[i]
        exp = ones if v else n - ones
        return K.check(r.value == exp and _unchanged(K, s, x, pos), 'count', got=r.value, expected=exp)
    return h


def h_allany(cname, n, which, pkind):
    def h(K):
        cls, x, pos, s = _obj(K, cname, n)
        v = K.bool('value')
        if pkind == 'none':
            r = call(lambda: getattr(s, which)(v))
            plist = list(range(n))
        else:
            plist = [K.int('p0'), K.int('p1')]
            r = call(lambda: getattr(s, which)(v, list(plist)))
        # reference: scan in order; an invalid position raises IndexError when it is reached
        res = (which == 'all')
        for p in plist:
            if not ((-n <= p) and (p < n)):
                return K.check(r.raised(IndexError), 'invalid position must raise IndexError', exc=r.excname)
            j = p + n if p < 0 else p
            hit = (x[j] == (1 if v else 0))
            if which == 'all' and not hit:
                res = False
                break
            if which == 'any' and hit:
                res = True
                break
        if not r.ok:
            return K.fail(which + ' raised', exc=r.excname)
        return K.check((r.value == res) and _unchanged(K, s, x, pos), which + ' result', got=r.value, expected=res)
    return h


def h_cut(cname, n):
    def h(K):
        cls, x, pos, s = _obj(K, cname, n)
        bits = K.int('bits', -1, n + 2)
        a, b = _window(K, n, n + 1)
        cnt = K.opt_int('count', -1, 4)
        r = call(lambda: list(s.cut(bits, a, b, cnt)))
        s0, e0, valid = O.norm_range(n, a, b)
        if (not valid) or bits <= 0 or (cnt is not None and cnt < 0):
            return K.check(r.raised(ValueError), 'invalid range / bits <= 0 / negative count must raise ValueError', exc=r.excname)
        if not r.ok:
            return K.fail('cut raised', exc=r.excname)
        s0, e0, w = K.conc(s0), K.conc(e0), K.conc(bits)
        exp = []
        p = s0
        while p < e0 and (cnt is None or len(exp) < cnt):
            exp.append(x[p:min(p + w, e0)])
            p += w
        got = r.value
        if len(got) != len(exp):
            return K.fail('cut produced the wrong number of chunks', got=len(got), expected=len(exp))
        ok = True
        for g, e in zip(got, exp):
            ok = ok and (type(g) is cls) and same(raw(g), e)
            if is_stream(cls):
                ok = ok and g._pos == 0
        return K.check(ok and _unchanged(K, s, x, pos), 'cut chunks')
    return h


def h_split(cname, n, m, mode, part=None):
    def h(K):
        import bitstring
        cls, x, pos, s = _obj(K, cname, n)
        pat = K.bits('delim', m)
        a, b = _window(K, n, n + 1, part)
        cnt = K.opt_int('count', -1, 3)
        kw, aligned = _align_args(K, mode)
        r = call(lambda: list(s.split(mk(K, bitstring.Bits, pat), a, b, cnt, **kw)))
        s0, e0, valid = O.norm_range(n, a, b)
        if m == 0 or (not valid) or (cnt is not None and cnt < 0):
            return K.check(r.raised(ValueError), 'empty delimiter / invalid range / negative count must raise ValueError', exc=r.excname)
        if not r.ok:
            return K.fail('split raised', exc=r.excname)
        s0, e0 = K.conc(s0), K.conc(e0)
        pts = []
        p = s0
        while p + m <= e0:
            if (not aligned or p % 8 == 0) and O.occurs_at(x, pat, p):
                pts.append(p)
                p += m
            else:
                p += 1
        if not pts:
            items = [x[s0:e0]]
        else:
            items = [x[s0:pts[0]]] + [x[pts[i]:pts[i + 1]] for i in range(len(pts) - 1)] + [x[pts[-1]:e0]]
        if cnt is not None:
            items = items[:K.conc(cnt)]
        got = r.value
        if len(got) != len(items):
            return K.fail('split produced the wrong number of pieces', got=len(got), expected=len(items), cut_points=pts)
        ok = True
        for g, e in zip(got, items):
            ok = ok and (type(g) is cls) and same(raw(g), e)
        return K.check(ok and _unchanged(K, s, x, pos), 'split pieces', cut_points=pts)
    return h


def conditions(tier):
    q = tier == 'quick'
    conds = []
    T = 200 if q else 450

    def add(cid, fn, bounds, drives, **params):
        conds.append(Cond(cid, fn, bounds, drives, params, timeout=T))

    W = 'start,end in [-{0},{0}] or None'
    classes_q = ['Bits'] if q else ['Bits', 'BitArray', 'ConstBitStream', 'BitStream']
    for c in classes_q:
        for which in ('find', 'rfind'):
            for (n, m) in ([(6, 1), (6, 2), (5, 0)] if q else [(6, 1), (6, 2), (8, 3), (5, 0), (10, 2), (12, 3)]):
                add(f'C07.{which}[{c},n={n},m={m}]', h_find(c, n, m, 'off', which), f'all contents ({n}-bit data, {m}-bit pattern) x ' + W.format(n + 1), D_FIND, n=n, m=m)
            for (n, m) in ([(9, 1), (16, 8), (25, 16)] if q else [(9, 1), (10, 1), (16, 8), (17, 8), (24, 16), (25, 16)]):
                for part in PARTS:
                    if q and (n, m) in ((16, 8), (25, 16)) and (part != 'pos' or which == 'rfind'):
                        continue
                    add(f'C07.{which}-aligned[{c},n={n},m={m},start={part}]', h_find(c, n, m, 'explicit' if q else 'on', which, part),
                        f'all contents ({n}-bit data, {m}-bit pattern) x start {part}, end in [-{n + 1},{n + 1}] or None x every way of requesting byte alignment', D_FIND, n=n, m=m)
            for (n, m) in ([(8, 1)] if q else [(9, 1), (10, 2), (16, 8)]):
                add(f'C07.{which}-align-override[{c},n={n},m={m}]', h_find(c, n, m, 'override', which),
                    f'all contents ({n}-bit data, {m}-bit pattern) x windows x every way of requesting no alignment (explicit False overrides the option)', D_FIND, n=n, m=m)
        for (n, m) in ([(5, 1), (6, 2), (4, 0)] if q else [(5, 1), (6, 2), (4, 0), (8, 1), (8, 3), (10, 2)]):
            add(f'C07.findall[{c},n={n},m={m}]', h_find(c, n, m, 'off', 'findall'), f'all contents ({n}-bit data, {m}-bit pattern) x ' + W.format(n + 1) + ' x count in [-1,3] or None', D_FIND, n=n, m=m)
        for (n, m) in ([(9, 1)] if q else [(9, 1), (16, 8), (17, 8), (16, 0)]):
            for part in (['none'] if q else PARTS):
                add(f'C07.findall-aligned[{c},n={n},m={m},start={part}]', h_find(c, n, m, 'explicit' if q else 'on', 'findall', part), f'all contents ({n}-bit data, {m}-bit pattern) x start {part}, end x count x every way of requesting byte alignment', D_FIND, n=n, m=m)
        for (n, m) in ([(6, 2), (3, 0), (9, 1)] if q else [(6, 2), (3, 0), (9, 1), (12, 3), (17, 8)]):
            add(f'C07.in[{c},n={n},m={m}]', h_contains(c, n, m), f'all contents ({n}-bit data, {m}-bit pattern) x options.bytealigned', D_FIND, n=n, m=m)
        for (n, m) in ([(6, 2), (4, 0), (3, 4)] if q else [(6, 2), (4, 0), (3, 4), (9, 3), (12, 8)]):
            for ends in (False, True):
                add(f"C07.{'endswith' if ends else 'startswith'}[{c},n={n},m={m}]", h_startsends(c, n, m, ends), f'all contents ({n}-bit data, {m}-bit affix) x ' + W.format(n + 1), D_MISC, n=n, m=m)
        for n in ([0, 1, 9] if q else [0, 1, 8, 9, 17, 64, 65]):
            add(f'C07.count[{c},n={n}]', h_count(c, n), f'all {n}-bit contents x value in {{0,1,True,False,2,"","x",None}}', D_MISC, n=n)
        for n in ([0, 5] if q else [0, 1, 5, 9]):
            for which in ('all', 'any'):
                add(f'C07.{which}[{c},n={n}]', h_allany(c, n, which, 'none'), f'all {n}-bit contents x value', D_MISC, n=n)
                add(f'C07.{which}-pos[{c},n={n}]', h_allany(c, n, which, 'list'), f'all {n}-bit contents x value x every pair of int positions', D_MISC, n=n)
        for n in ([0, 5] if q else [0, 1, 5, 8]):
            add(f'C07.cut[{c},n={n}]', h_cut(c, n), f'all {n}-bit contents x bits in [-1,{n + 2}] x ' + W.format(n + 1) + ' x count in [-1,4] or None', D_MISC, n=n)
        for (n, m) in ([(4, 1), (4, 0)] if q else [(5, 1), (6, 2), (4, 0), (8, 1), (8, 3)]):
            for part in PARTS:
                add(f'C07.split[{c},n={n},m={m},start={part}]', h_split(c, n, m, 'off', part), f'all contents ({n}-bit data, {m}-bit delimiter) x start {part}, end x count in [-1,3] or None', D_MISC, n=n, m=m)
        for (n, m) in ([(9, 1)] if q else [(9, 1), (17, 8)]):
            for part in (['none'] if q else PARTS):
                add(f'C07.split-aligned[{c},n={n},m={m},start={part}]', h_split(c, n, m, 'explicit' if q else 'on', part), f'as above x every way of requesting byte alignment', D_MISC, n=n, m=m)
    # the match selection of replace (shared with C03's harness): successive non-overlapping matches from the left, every alignment request
    from harness.c03 import h_replace, D_REP
    for c in (['BitArray'] if q else ['BitArray', 'BitStream']):
        for ba in (None, False, True):
            for opt in (False, True):
                eff = opt if ba is None else ba
                if q and (ba, opt) == (None, False):
                    continue        # the plain C03.replace conditions
                for (n, m, k) in (([(16, 8, 3)] if eff else ([(4, 1, 2), (5, 2, 1)] if (ba, opt) == (False, False) else [(4, 1, 2)])) if q else [(9, 1, 2), (10, 2, 1), (16, 8, 3), (17, 2, 0)]):
                    add(f'C07.replace-select[{c},n={n},old={m},new={k},bytealigned={ba},option={opt}]', h_replace(c, n, m, k, n + 1, (ba, opt, 'whole') if q else (ba, opt)),
                        f'all contents ({n}-bit data, {m}-bit old, {k}-bit new) x ' + ('end' if q else 'start,end') + f' in [-{n + 1},{n + 1}] or None x count in [-1,3] or None; bytealigned={ba}, options.bytealigned={opt}', D_REP, n=n, m=m, k=k)
    if q:
        add('C07.find[BitStream,n=6,m=2]', h_find('BitStream', 6, 2, 'off', 'find'), 'all contents (6-bit data, 2-bit pattern) x windows', D_FIND, n=6, m=2)
        add('C07.find-align-ways[BitArray,n=8,m=1]', h_find('BitArray', 8, 1, 'on', 'find', 'none'), 'all contents (8-bit data, 1-bit pattern) x end x every way of requesting byte alignment', D_FIND, n=8, m=1)
    return conds
