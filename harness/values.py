"""Shared machinery for C02 (value <-> bits round trip, canonical encoding, route agreement) and
C15 (out-of-range or mis-sized values are rejected)."""
from __future__ import annotations

import sys

from kit import oracle as O
from kit import logic as L
from kit.state import mk, raw, call, classes, is_stream, is_mutable, same, get_attr, set_attr

INT_TYPES = {  # name -> (signed, byte order, length unit)
    'uint': (False, 'be', 1), 'int': (True, 'be', 1), 'uintbe': (False, 'be', 8), 'intbe': (True, 'be', 8),
    'uintle': (False, 'le', 8), 'intle': (True, 'le', 8), 'uintne': (False, 'ne', 8), 'intne': (True, 'ne', 8),
}
NATIVE = 'le' if sys.byteorder == 'little' else 'be'

D_INT = ['bitstring.bitstore_helpers:int2bitstore', 'bitstring.bitstore_helpers:intle2bitstore', 'bitstring.bits:Bits._setuint', 'bitstring.bits:Bits._setint',
         'bitstring.bits:Bits._setuintbe', 'bitstring.bits:Bits._setintbe', 'bitstring.bits:Bits._setuintle', 'bitstring.bits:Bits._setintle',
         'bitstring.bits:Bits._getuint', 'bitstring.bits:Bits._getint', 'bitstring.bits:Bits._getuintbe', 'bitstring.bits:Bits._getintbe',
         'bitstring.bits:Bits._getuintle', 'bitstring.bits:Bits._getintle', 'bitstring.bitstore:BitStore.slice_to_uint', 'bitstring.bitstore:BitStore.slice_to_int',
         'bitstring.bits:Bits._initialise', 'bitstring.bits:Bits.__new__', 'bitstring.bits:Bits.__getattr__', 'bitstring.bitarray_:BitArray.__setattr__',
         'bitstring.dtypes:Dtype.build', 'bitstring.dtypes:Dtype.parse', 'bitstring.dtypes:Dtype._create', 'bitstring.dtypes:DtypeDefinition.get_dtype',
         'bitstring.methods:pack', 'bitstring.bitstore_helpers:bitstore_from_token', 'bitstring.bits:Bits.unpack', 'bitstring.bits:Bits._readlist',
         'bitstring.bitstream:ConstBitStream.read']
D_FLOAT = ['bitstring.bitstore_helpers:float2bitstore', 'bitstring.bits:Bits._setfloat', 'bitstring.bits:Bits._setfloatbe', 'bitstring.bits:Bits._setfloatle',
           'bitstring.bits:Bits._getfloatbe', 'bitstring.bits:Bits._getfloatle', 'bitstring.bitstore:BitStore.frombytes', 'bitstring.bitstore:BitStore.tobytes']
D_TEXT = ['bitstring.bitstore_helpers:hex2bitstore', 'bitstring.bitstore_helpers:oct2bitstore', 'bitstring.bitstore_helpers:bin2bitstore',
          'bitstring.bitstore_helpers:tidy_input_string', 'bitstring.bits:Bits._sethex', 'bitstring.bits:Bits._setoct', 'bitstring.bits:Bits._setbin_safe',
          'bitstring.bits:Bits._gethex', 'bitstring.bits:Bits._getoct', 'bitstring.bits:Bits._getbin', 'bitstring.bitstore:BitStore.slice_to_hex',
          'bitstring.bitstore:BitStore.slice_to_oct', 'bitstring.bitstore:BitStore.slice_to_bin']


def in_range(v, n, signed):
    if signed:
        return (-(1 << (n - 1)) <= v) and (v < (1 << (n - 1)))
    return (0 <= v) and (v < (1 << n))


def canonical_int(K, bits, v, n, signed, order):
    """the documented canonical encoding, asserted arithmetically on the produced bits"""
    import bitarray.util as U
    if len(bits) != n:
        return False
    if order == 'ne':
        order = NATIVE
    if order == 'le':
        nb = n // 8
        bits = O.ref_concat(*[bits[8 * (nb - 1 - t):8 * (nb - t)] for t in range(nb)])
    return U.ba2int(bits, signed=signed) == v


# creation routes: name -> (needs_mutable_class, callable(cls, tname, n, v) -> bitstring)
def _r_kwlen(cls, t, n, v):
    return cls(**{t: v}, length=n)


def _r_kwname(cls, t, n, v):
    return cls(**{f'{t}{n}': v})


def _r_prop_len(cls, t, n, v):
    s = cls()
    set_attr(s, f'{t}{n}', v)
    return s


def _r_prop_keep(cls, t, n, v):
    s = cls(n)
    set_attr(s, t, v)
    return s


def _r_build(cls, t, n, v):
    import bitstring
    return bitstring.Dtype(t, n).build(v)


def _r_build_tok(cls, t, n, v):
    import bitstring
    return bitstring.Dtype(f'{t}{n}').build(v)


def _r_pack(cls, t, n, v):
    import bitstring
    return bitstring.pack(f'{t}:{n}', v)


def _r_pack_kw(cls, t, n, v):
    import bitstring
    return bitstring.pack(f'{t}:n', v, n=n)


def _r_pack_kwval(cls, t, n, v):
    import bitstring
    return bitstring.pack(f'{t}:{n}=val', val=v)


CREATE = {
    'kw+length': (False, _r_kwlen), 'kw-name-length': (False, _r_kwname), 'prop-assign-len': (True, _r_prop_len), 'prop-assign-keep': (True, _r_prop_keep),
    'Dtype.build': (False, _r_build), 'Dtype(token).build': (False, _r_build_tok), 'pack': (False, _r_pack), 'pack-kw-length': (False, _r_pack_kw),
    'pack-kw-value': (False, _r_pack_kwval),
}


def readers(t, n):
    import bitstring
    return {
        'property': lambda s: get_attr(s, t),
        'property+length': lambda s: get_attr(s, f'{t}{n}'),
        'Dtype.parse': lambda s: bitstring.Dtype(t, n).parse(s),
        'unpack': lambda s: s.unpack(f'{t}:{n}')[0],
        'unpack-kw': lambda s: s.unpack(f'{t}:k', k=n)[0],
        'unpack-stretchy': lambda s: s.unpack(t)[0],
        'read': lambda s: bitstring.ConstBitStream(s).read(f'{t}:{n}'),
        'read-Dtype': lambda s: bitstring.ConstBitStream(s).read(bitstring.Dtype(t, n)),
    }
