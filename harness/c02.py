"""C02 - value <-> bits round trip and canonical encoding for every fixed dtype; all routes agree."""
from __future__ import annotations

import struct

from kit.engine import Cond
from kit import oracle as O
from kit import logic as L
from kit.state import mk, raw, call, classes, is_stream, is_mutable, same, get_attr, set_attr
from harness.common import CLS
from harness import values as V

ASSUMPTIONS = [
    "integers: the value is every in-range Python int (one solver variable); widths are enumerated",
    "floats: the value is every float64; the canonical encoding is struct.pack's (z3 fpToFP(RNE) in the symbolic run, the real struct on replay); NaN payloads are not compared",
    "hex/oct/bin text: digits are symbolic code points for k <= 2 digits (prefixes, whitespace and underscores from a concrete catalogue)",
    "token strings with an embedded =value are built only for solver-enumerated values of widths <= 4 (rendering a value as text concretises it)",
]


def _mutcls(cname):
    return cname in ('BitArray', 'BitStream')


def h_int(cname, t, n):
    signed, order, unit = V.INT_TYPES[t]

    def h(K):
        import bitstring
        cls = classes()[cname]
        lo, hi = (-(1 << (n - 1)), (1 << (n - 1)) - 1) if signed else (0, (1 << n) - 1)
        v = K.int('v', lo, hi)
        first = None
        for rname, (needs_mut, f) in V.CREATE.items():
            if needs_mut and not _mutcls(cname):
                continue
            r = call(lambda: f(cls, t, n, v))
            if not r.ok:
                return K.fail('creation route raised for an in-range value', route=rname, exc=r.excname)
            s = r.value
            bits = raw(s)
            if len(bits) != n:
                return K.fail('created bitstring has the wrong length', route=rname, got=len(bits))
            if not K.check(V.canonical_int(K, bits, v, n, signed, order), 'bits are not the canonical encoding of the value', route=rname, got=bits):
                return False
            if first is None:
                first = bits
            elif not K.check(same(bits, first), 'two creation routes give different bits', route=rname):
                return False
        s = mk(K, cls, first)
        for rd, g in V.readers(t, n).items():
            r = call(lambda: g(s))
            if not r.ok:
                return K.fail('reading route raised', route=rd, exc=r.excname)
            if not K.check(r.value == v, 'reading route does not return the value', route=rd, got=r.value):
                return False
        return True
    return h


def h_int_token(cname, t, n):
    """token string with the value embedded (value enumerated by the solver)"""
    signed, order, unit = V.INT_TYPES[t]

    def h(K):
        import bitstring
        cls = classes()[cname]
        lo, hi = (-(1 << (n - 1)), (1 << (n - 1)) - 1) if signed else (0, (1 << n) - 1)
        v = K.conc(K.int('v', lo, hi))
        outs = []
        for tok in (f'{t}:{n}={v}', f'{t}{n}={v}', f'{t}:{n}={v},', f' {t}:{n} = {v} '):
            r = call(lambda: cls(tok))
            if not r.ok:
                return K.fail('token string raised', token=tok, exc=r.excname)
            if not K.check(V.canonical_int(K, raw(r.value), v, n, signed, order), 'token string bits are not canonical', token=tok):
                return False
        r = call(lambda: bitstring.pack(f'{t}:{n}={v}'))
        return K.check(r.ok and V.canonical_int(K, raw(r.value), v, n, signed, order), 'pack with embedded value')
    return h


def h_int_converse(cname, t, n):
    signed, order, unit = V.INT_TYPES[t]

    def h(K):
        cls = classes()[cname]
        x = K.bits('x', n)
        s = mk(K, cls, x)
        r = call(lambda: get_attr(s, t))
        if not r.ok:
            return K.fail('interpretation raised', exc=r.excname)
        v = r.value
        if not K.check(V.in_range(v, n, signed), 'interpreted value outside the type range', got=v):
            return False
        r2 = call(lambda: cls(**{t: v}, length=n))
        return K.check(r2.ok and same(raw(r2.value), x), 'rebuilding from the interpreted value does not reproduce the bits', exc=r2.excname)
    return h


FLOATS = {'float': '>', 'floatbe': '>', 'floatle': '<', 'floatne': '<' if V.NATIVE == 'le' else '>', 'f': '>'}
FCODE = {16: 'e', 32: 'f', 64: 'd'}


def _canon_float_bytes(f, n, prefix):
    try:
        return struct.pack(prefix + FCODE[n], f)
    except OverflowError:
        return struct.pack(prefix + FCODE[n], float('inf') if f > 0 else float('-inf'))


def h_float(cname, t, n):
    prefix = FLOATS[t]

    def h(K):
        import bitstring
        import math
        cls = classes()[cname]
        f = K.float('f')
        if K.symbolic and math.isnan(f):
            return True  # NaN payloads excepted
        if not K.symbolic and f != f:
            return True
        exp = O.empty()
        exp.frombytes(_canon_float_bytes(f, n, prefix))
        routes = {
            'kw+length': lambda: cls(**{t: f}, length=n),
            'kw-name-length': lambda: cls(**{f'{t}{n}': f}),
            'Dtype.build': lambda: bitstring.Dtype(t, n).build(f),
            'pack': lambda: bitstring.pack(f'{t}:{n}', f),
        }
        if _mutcls(cname):
            def pa():
                s = cls()
                set_attr(s, f'{t}{n}', f)
                return s
            routes['prop-assign-len'] = pa
        for rn, g in routes.items():
            r = call(g)
            if not r.ok:
                return K.fail('float creation route raised', route=rn, exc=r.excname)
            if not K.check(same(raw(r.value), exp), 'float bits differ from struct.pack', route=rn, got=raw(r.value), expected=exp):
                return False
        return True
    return h


def h_float_converse(cname, t, n):
    prefix = FLOATS[t]

    def h(K):
        import bitstring
        import math
        cls = classes()[cname]
        x = K.bits('x', n)
        s = mk(K, cls, x)
        vals = {}
        for rd, g in V.readers(t, n).items():
            if rd == 'unpack-stretchy':
                continue
            r = call(lambda: g(s))
            if not r.ok:
                return K.fail('float reading route raised', route=rd, exc=r.excname)
            vals[rd] = r.value
        v = vals['property']
        if math.isnan(v):
            return True
        for rd, w in vals.items():
            if not K.check(w == v, 'float reading routes disagree', route=rd):
                return False
        r2 = call(lambda: cls(**{t: v}, length=n))
        return K.check(r2.ok and same(raw(r2.value), x), 'rebuilding from the interpreted float does not reproduce the bits', exc=r2.excname)
    return h


TEXT = {'hex': (4, '0x'), 'oct': (3, '0o'), 'bin': (1, '0b')}


def _digit_ranges(t):
    return {'hex': [(48, 57), (97, 102), (65, 70)], 'oct': [(48, 55)], 'bin': [(48, 49)]}[t]


def _digit_value(o):
    if o <= 57:
        return o - 48
    if o >= 97:
        return o - 87
    return o - 55


def h_text(cname, t, k, variant):
    w, prefix = TEXT[t]

    def h(K):
        import bitstring
        import bitarray.util as U
        cls = classes()[cname]
        rngs = _digit_ranges(t)
        cps = []
        for j in range(k):
            lo, hi = K.choice(f'class{j}', rngs)
            cps.append(K.int(f'c{j}', lo, hi))
        if K.symbolic:
            from crosshair.libimpl.builtinslib import LazyIntSymbolicStr
            from crosshair.tracers import NoTracing
            with NoTracing():
                digits = LazyIntSymbolicStr(list(cps))
        else:
            digits = ''.join(chr(c) for c in cps)
        text = {'plain': digits, 'prefix': prefix + digits, 'upper-prefix': prefix.upper() + digits, 'spaced': ' ' + digits + '\n', 'underscore': digits + '_'}[variant]
        exp = O.ref_concat(*[U.int2ba(_digit_value(c), length=w) for c in cps]) if k else O.empty()
        routes = {
            'kw': lambda: cls(**{t: text}),
            'Dtype.build': lambda: bitstring.Dtype(t).build(text),
            'pack': lambda: bitstring.pack(t, text),
            'kw+length': lambda: cls(**{t: text}, length=None),
        }
        if _mutcls(cname):
            def pa():
                s = cls()
                set_attr(s, t, text)
                return s
            routes['prop-assign'] = pa
        for rn, g in routes.items():
            r = call(g)
            if not r.ok:
                return K.fail('text creation route raised for valid digits', route=rn, exc=r.excname)
            if not K.check(same(raw(r.value), exp), 'bits are not one digit per group', route=rn, got=raw(r.value), expected=exp):
                return False
        return True
    return h


def h_text_converse(cname, t, n):
    def h(K):
        import bitstring
        cls = classes()[cname]
        x = K.bits('x', n)
        s = mk(K, cls, x)
        vals = {}
        for rd, g in V.readers(t, n).items():
            r = call(lambda: g(s))
            if not r.ok:
                return K.fail('text reading route raised', route=rd, exc=r.excname)
            vals[rd] = r.value
        v = vals['property']
        for rd, wv in vals.items():
            if not K.check(wv == v, 'text reading routes disagree', route=rd):
                return False
        if len(v) != n // TEXT[t][0]:
            return K.fail('text has the wrong number of digits', got=len(v))
        r2 = call(lambda: cls(**{t: v}))
        if not K.check(r2.ok and same(raw(r2.value), x), 'rebuilding from the text does not reproduce the bits', exc=r2.excname):
            return False
        if n == 0:
            return True   # '0x' with no digits is not a literal
        r3 = call(lambda: cls(TEXT[t][1] + v))
        return K.check(r3.ok and same(raw(r3.value), x), 'rebuilding from the prefixed literal does not reproduce the bits', exc=r3.excname)
    return h


def h_bytes(cname, k):
    def h(K):
        import bitstring
        cls = classes()[cname]
        b = K.bytes('b', k)
        exp = O.empty()
        exp.frombytes(b)
        routes = {'kw': lambda: cls(bytes=b), 'auto': lambda: cls(b), 'Dtype.build': lambda: bitstring.Dtype('bytes', k).build(b),
                  'pack': lambda: bitstring.pack(f'bytes:{k}', b), 'kw-name-length': lambda: cls(**{f'bytes{k}': b})}
        for rn, g in routes.items():
            r = call(g)
            if not r.ok:
                return K.fail('bytes creation route raised', route=rn, exc=r.excname)
            if not K.check(same(raw(r.value), exp), 'bytes route bits', route=rn):
                return False
        s = mk(K, cls, exp)
        for rd, g in V.readers('bytes', k).items():
            if rd in ('property+length',):
                continue
            r = call(lambda: g(s))
            if not r.ok:
                return K.fail('bytes reading route raised', route=rd, exc=r.excname)
            if not K.check(r.value == b, 'bytes reading route value', route=rd):
                return False
        return True
    return h


def h_bool(cname):
    def h(K):
        import bitstring
        cls = classes()[cname]
        v = K.choice('v', [True, False, 1, 0, 'True', 'False', '1', '0'])
        want = v in (True, 1, 'True', '1')
        exp = O.ones(1) if want else O.zeros(1)
        for rn, g in {'kw': lambda: cls(bool=v), 'Dtype.build': lambda: bitstring.Dtype('bool').build(v), 'pack': lambda: bitstring.pack('bool', v),
                      'kw+length': lambda: cls(bool=v, length=1)}.items():
            r = call(g)
            if not (r.ok and same(raw(r.value), exp)):
                return K.fail('bool creation route', route=rn, exc=r.excname)
        s = mk(K, cls, exp)
        for rd, g in V.readers('bool', 1).items():
            r = call(lambda: g(s))
            if not (r.ok and r.value is want):
                return K.fail('bool reading route', route=rd, exc=r.excname, got=r.value)
        return True
    return h


def h_bits(cname, n):
    def h(K):
        import bitstring
        cls = classes()[cname]
        x = K.bits('x', n)
        src = mk(K, bitstring.Bits, x)
        for rn, g in {'kw': lambda: cls(bits=src), 'auto': lambda: cls(src), 'Dtype.build': lambda: bitstring.Dtype('bits', n).build(src),
                      'pack': lambda: bitstring.pack(f'bits:{n}', src), 'pack-stretchy': lambda: bitstring.pack('bits', src)}.items():
            r = call(g)
            if not (r.ok and same(raw(r.value), x)):
                return K.fail('bits creation route', route=rn, exc=r.excname)
        s = mk(K, cls, x)
        for rd, g in V.readers('bits', n).items():
            r = call(lambda: g(s))
            if not (r.ok and same(raw(r.value), x)):
                return K.fail('bits reading route', route=rd, exc=r.excname)
        return True
    return h


def conditions(tier):
    q = tier == 'quick'
    conds = []
    T = 180 if q else 450

    def add(cid, fn, bounds, drives, **params):
        conds.append(Cond(cid, fn, bounds, drives, params, timeout=T))

    widths = [1, 2, 7, 8, 9, 16] if q else [1, 2, 3, 4, 5, 7, 8, 9, 12, 15, 16, 17, 24, 31, 32, 33, 63, 64, 65]
    bwidths = [8, 16, 24] if q else [8, 16, 24, 32, 40, 48, 56, 64, 72]
    cls_q = ['Bits', 'BitStream'] if q else CLS
    for t, (signed, order, unit) in V.INT_TYPES.items():
        ws = widths if unit == 1 else bwidths
        for n in ws:
            for c in (cls_q if n in (8, 16) or not q else ['BitArray']):
                add(f'C02.int[{c},{t},n={n}]', h_int(c, t, n), f'every in-range value of {t}:{n}; 9 creation routes, 8 reading routes', V.D_INT, t=t, n=n)
            add(f'C02.int-converse[Bits,{t},n={n}]', h_int_converse('Bits', t, n), f'all 2^{n} bit patterns', V.D_INT, t=t, n=n)
        for n in ([3] if unit == 1 else [8]) if q else ([1, 2, 3, 4] if unit == 1 else [8]):
            add(f'C02.int-token[Bits,{t},n={n}]', h_int_token('Bits', t, n), f'every in-range value of {t}:{n} (solver-enumerated), embedded in token strings', V.D_INT, t=t, n=n)
    for t in FLOATS:
        for n in (16, 32, 64):
            for c in (['Bits', 'BitArray'] if (q and t in ('float', 'floatle')) else (['Bits'] if q else CLS)):
                add(f'C02.float[{c},{t},n={n}]', h_float(c, t, n), 'every float64 value (NaN excepted)', V.D_FLOAT, t=t, n=n)
            add(f'C02.float-converse[Bits,{t},n={n}]', h_float_converse('Bits', t, n), f'all 2^{n} bit patterns (NaN excepted)', V.D_FLOAT, t=t, n=n)
    for t in TEXT:
        for k in ([0, 1, 2] if q else [0, 1, 2, 3]):
            for variant in (['plain', 'prefix'] if q else ['plain', 'prefix', 'upper-prefix', 'spaced', 'underscore']):
                if k == 0 and variant != 'plain':
                    continue
                for c in (['Bits'] if q else ['Bits', 'BitArray']):
                    add(f'C02.text[{c},{t},k={k},{variant}]', h_text(c, t, k, variant), f'every string of {k} valid {t} digits (upper and lower case); variant {variant}', V.D_TEXT, t=t, k=k)
        for n in (([0, 12] if t != 'bin' else [0, 4]) if q else ([0, 12, 24] if t != 'bin' else [0, 3, 6])):
            add(f'C02.text-converse[Bits,{t},n={n}]', h_text_converse('Bits', t, n), f'all 2^{n} bit patterns', V.D_TEXT, t=t, n=n)
    for k in ([0, 1, 2] if q else [0, 1, 2, 3]):
        for c in (['Bits'] if q else CLS):
            add(f'C02.bytes[{c},k={k}]', h_bytes(c, k), f'all {k}-byte values', ['bitstring.bits:Bits._setbytes', 'bitstring.bits:Bits._getbytes', 'bitstring.bits:Bits._setbytes_with_truncation'], k=k)
    for c in cls_q:
        add(f'C02.bool[{c}]', h_bool(c), 'the eight documented bool spellings', ['bitstring.bits:Bits._setbool', 'bitstring.bits:Bits._getbool'])
        for n in [0, 1, 9]:
            add(f'C02.bits[{c},n={n}]', h_bits(c, n), f'all {n}-bit contents', ['bitstring.bits:Bits._setbits', 'bitstring.bits:Bits._getbits'], n=n)
    return conds
