"""C18 - struct-code formats match struct/array; endian forms relate by byte reversal."""
from __future__ import annotations

import array
import struct
import sys

from kit.engine import Cond
from kit import oracle as O
from kit import logic as L
from kit.state import mk, raw, call, classes, same, get_attr

ASSUMPTIONS = [
    "struct.pack/unpack are the oracle: CrossHair's symbolic struct for integer codes, the z3 float stub for e/f/d (real struct on replay)",
    "array.array inputs hold solver-enumerated small values (the C type concretises its items)",
]

D = ['bitstring.utils:structparser', 'bitstring.utils:parse_single_struct_token', 'bitstring.utils:preprocess_tokens', 'bitstring.methods:pack', 'bitstring.bits:Bits.unpack',
     'bitstring.bitstore_helpers:intle2bitstore', 'bitstring.bits:Bits._getuintle', 'bitstring.bits:Bits._getintle', 'bitstring.bits:Bits._getfloatle', 'bitstring.bits:Bits._getfloatbe',
     'bitstring.bitarray_:BitArray.byteswap', 'bitstring.array_:Array.byteswap', 'bitstring.array_:Array.extend', 'bitstring.array_:Array.equals', 'bitstring.array_:Array.__init__',
     'bitstring.array_:Array._set_dtype']

INT_CODES = {'b': (8, True), 'B': (8, False), 'h': (16, True), 'H': (16, False), 'l': (32, True), 'L': (32, False), 'i': (32, True), 'I': (32, False), 'q': (64, True), 'Q': (64, False)}
FLOAT_CODES = {'e': 16, 'f': 32, 'd': 64}
LITTLE = sys.byteorder == 'little'


def ref_struct_pack(K, fmt_prefix, codes, vals):
    """bits of struct.pack(prefix+codes, *vals) per the struct module documentation: standard sizes and no padding for < > =,
    native sizes and alignment for @ (layout taken from struct.calcsize on the concrete format), two's complement, byte order by prefix"""
    import bitarray.util as U
    little = fmt_prefix == '<' or (fmt_prefix in '=@' and LITTLE)
    out = O.empty()
    pos = 0
    for k, (c, v) in enumerate(zip(codes, vals)):
        size = struct.calcsize(fmt_prefix + c)
        end = struct.calcsize(fmt_prefix + codes[:k + 1])
        start = end - size
        out = O.ref_concat(out, O.zeros(8 * (start - pos)))        # alignment padding (native mode only)
        w, signed = INT_CODES[c]
        field = U.int2ba(v, length=8 * size, signed=signed)
        if little:
            field = _byterev(field)
        out = O.ref_concat(out, field)
        pos = end
    return out


def _values(K, code, count):
    import math
    vals = []
    for j in range(count):
        if code in INT_CODES:
            w, signed = INT_CODES[code]
            lo, hi = (-(1 << (w - 1)), (1 << (w - 1)) - 1) if signed else (0, (1 << w) - 1)
            vals.append(K.int(f'v{j}', lo, hi, edges=1))
        else:
            f = K.float(f'v{j}')
            vals.append(f)
    return vals


def h_struct(prefix, code, count):
    fmt = prefix + (str(count) if count > 1 else '') + code

    def h(K):
        import bitstring
        import math
        vals = _values(K, code, count)
        if code in FLOAT_CODES:
            for f in vals:
                if math.isnan(f):
                    return True
            try:
                want = b''.join(struct.pack(prefix + code, f) for f in vals)
            except OverflowError:
                return True   # bitstring documents overflow -> inf for floats; struct raises: outside the comparison
            exp = O.empty()
            exp.frombytes(want)
        else:
            exp = ref_struct_pack(K, prefix, code * count, vals)
            if not K.symbolic:
                real = O.empty()
                real.frombytes(struct.pack(fmt, *vals))
                assert real == exp, 'reference struct encoder disagrees with the struct module'
        r = call(lambda: bitstring.pack(fmt, *vals))
        if not r.ok:
            return K.fail('pack with a struct code raised', exc=r.excname, fmt=fmt)
        got = call(lambda: r.value.bytes)
        if not got.ok:
            return K.fail('.bytes raised', exc=got.excname)
        if not K.check(same(raw(r.value), exp), 'pack(code, *values).bytes differs from struct.pack(code, *values)', fmt=fmt, got=raw(r.value), expected=exp):
            return False
        u = call(lambda: r.value.unpack(fmt))
        if not u.ok or len(u.value) != count:
            return K.fail('unpack with a struct code failed', exc=u.excname)
        for g, v in zip(u.value, vals):
            if code in INT_CODES:
                if not K.check(g == v, 'unpack does not invert pack', fmt=fmt, got=g):
                    return False
        if count == 1:
            a = call(lambda: bitstring.Array(prefix + code, [vals[0], vals[0]]))
            if not a.ok:
                return K.fail('Array with a struct code raised', exc=a.excname)
            tb = O.empty()
            tb.frombytes(a.value.tobytes())
            if not K.check(same(tb, O.ref_concat(exp, exp)), 'Array(code, values).tobytes() differs from struct output', fmt=fmt):
                return False
        return True
    return h


def h_struct_mixed(fmt, codes):
    def h(K):
        import bitstring
        vals = []
        for j, c in enumerate(codes):
            w, signed = INT_CODES[c]
            lo, hi = (-(1 << (w - 1)), (1 << (w - 1)) - 1) if signed else (0, (1 << w) - 1)
            vals.append(K.int(f'v{j}', lo, hi))
        exp = ref_struct_pack(K, fmt[0], codes, vals)
        if not K.symbolic:
            real = O.empty()
            real.frombytes(struct.pack(fmt, *vals))
            assert real == exp, 'reference struct encoder disagrees with the struct module'
        r = call(lambda: bitstring.pack(fmt, *vals))
        if not r.ok:
            return K.fail('pack raised', exc=r.excname, fmt=fmt)
        if not K.check(same(raw(r.value), exp), 'pack(fmt, *values).bytes differs from struct.pack(fmt, *values)', fmt=fmt, got=raw(r.value), expected=exp):
            return False
        u = call(lambda: r.value.unpack(fmt))
        return K.check(u.ok and u.value == vals, 'unpack does not invert pack', fmt=fmt)
    return h


def h_array_input(typecode, dtype_ok, dtype_bad):
    """Array accepts array.array input only when kind and width match; reads it back to the same values"""
    def h(K):
        import bitstring
        w = array.array(typecode).itemsize * 8
        signed = typecode.islower()
        lo, hi = (-(1 << (w - 1)), (1 << (w - 1)) - 1) if signed else (0, (1 << w) - 1)
        if typecode in 'fd':
            v0 = K.choice('v0', [0.0, 1.5, -2.0, float('inf'), 1e-40 if typecode == 'd' else 2.0 ** -140])
            v1 = K.choice('v1', [0.0, -0.5])
        else:
            v0 = K.choice('v0', sorted(set([lo, lo + 1, 0, 1, hi - 1, hi] + ([-1] if signed else []))))
            v1 = K.choice('v1', [0, hi, lo])
        src = K.untraced(lambda: array.array(typecode, [v0, v1]))
        r = call(lambda: bitstring.Array(dtype_ok, src))
        if not r.ok:
            return K.fail('Array rejected a matching array.array', exc=r.excname, typecode=typecode, dtype=dtype_ok)
        a = r.value
        if not K.check(a.tolist() == [v0, v1] and a.tobytes() == src.tobytes() and a.equals(src), 'array.array input not read back to the same values / bytes', got=a.tolist()):
            return False
        for bad in dtype_bad:
            rb = call(lambda: bitstring.Array(bad, src))
            if rb.ok:
                return K.fail('Array accepted array.array input of a different kind or width', dtype=bad, typecode=typecode)
            if not isinstance(rb.exc, (ValueError, TypeError)):
                return K.fail('unexpected exception for a mismatching array.array', exc=rb.excname)
            eqr = call(lambda: bitstring.Array(bad, [0, 0] if 'f' not in bad and 'd' not in bad else [0.0, 0.0]).equals(src))
            if eqr.ok and eqr.value and (v0, v1) != (0, 0):
                return K.fail('equals() true for a different kind/width', dtype=bad)
        return True
    return h


def _byterev(x):
    nb = len(x) // 8
    return O.ref_concat(*[x[8 * (nb - 1 - t):8 * (nb - t)] for t in range(nb)])


def h_endian_relation(nbytes, kind):
    def h(K):
        import bitstring
        import math
        n = 8 * nbytes
        x = K.bits('x', n)
        s = mk(K, bitstring.Bits, x)
        rvs = mk(K, bitstring.Bits, _byterev(x))
        if kind == 'uint':
            trip = ('uintle', 'uintbe', 'uintne')
        elif kind == 'int':
            trip = ('intle', 'intbe', 'intne')
        else:
            trip = ('floatle', 'floatbe', 'floatne')
        le, be_rev, ne, be = get_attr(s, trip[0]), get_attr(rvs, trip[1]), get_attr(s, trip[2]), get_attr(s, trip[1])
        if kind == 'float' and (math.isnan(le) or math.isnan(be)):
            return True
        if not K.check(le == be_rev, 'little-endian interpretation is not the big-endian interpretation of the byte-reversed bits', kind=kind):
            return False
        return K.check(ne == (le if LITTLE else be), 'native-endian interpretation does not follow sys.byteorder', kind=kind)
    return h


def h_byteswap_convert(nbytes, kind):
    def h(K):
        import bitstring
        n = 8 * nbytes
        if kind == 'uint':
            v = K.int('v', 0, (1 << n) - 1)
            s = bitstring.BitArray(uintle=v, length=n)
            r = call(lambda: s.byteswap())
            if not K.check(r.ok and s.uintbe == v, 'byteswap does not convert the little-endian encoding into the big-endian one'):
                return False
            r = call(lambda: s.byteswap())
            return K.check(r.ok and s.uintle == v, 'byteswap twice is not the identity')
        x = K.bits('x', n)
        s = mk(K, bitstring.BitArray, x)
        fmt = K.choice('fmt', [None, 0, 1, 2, 'h', '>HB', [1, 2], '2h'])
        r1 = call(lambda: s.byteswap(fmt))
        mid = raw(s).copy()
        r2 = call(lambda: s.byteswap(fmt))
        if not (r1.ok and r2.ok):
            return K.fail('byteswap raised', exc=r1.excname or r2.excname)
        return K.check(r1.value == r2.value and same(raw(s), x), 'applying byteswap twice is not the identity', fmt=fmt, mid=mid)
    return h


def h_byteswap_code(code, count):
    """byteswap with a struct-code pattern converts the little-endian packing of that code into the big-endian one (standard sizes, as pack uses)"""
    def h(K):
        import bitstring
        size = {'b': 1, 'B': 1, 'h': 2, 'H': 2, 'l': 4, 'L': 4, 'i': 4, 'I': 4, 'q': 8, 'Q': 8}[code]
        signed = code.islower()
        lo, hi = (-(1 << (8 * size - 1)), (1 << (8 * size - 1)) - 1) if signed else (0, (1 << (8 * size)) - 1)
        vals = [K.int(f'v{j}', lo, hi) for j in range(count)]
        le = call(lambda: bitstring.pack(f'<{count}{code}', *vals))
        be = call(lambda: bitstring.pack(f'>{count}{code}', *vals))
        if not (le.ok and be.ok):
            return K.fail('pack raised', exc=le.excname or be.excname)
        s = bitstring.BitArray(le.value)
        how = K.choice('pattern', [code, f'{count}{code}', '<' + code, '@' + code])
        r = call(lambda: s.byteswap(how))
        if not r.ok:
            return K.fail('byteswap raised', exc=r.excname, pattern=how)
        want_reps = count if how != f'{count}{code}' else 1
        return K.check(same(raw(s), raw(be.value)) and r.value == want_reps, 'byteswap with a struct code does not turn the little-endian packing into the big-endian one', pattern=how, got=raw(s), expected=raw(be.value), repeats=r.value)
    return h


def h_array_byteswap(dtype, w, k):
    def h(K):
        import bitstring
        x = K.bits('x', w * k)
        a = bitstring.Array(dtype)
        a.data = mk(K, bitstring.BitArray, x)
        r = call(lambda: a.byteswap())
        if w % 8:
            return K.check(r.raised(ValueError) and same(raw(a.data), x), 'byteswap of a non whole-byte Array must raise ValueError')
        if not r.ok:
            return K.fail('Array.byteswap raised', exc=r.excname)
        exp = O.ref_concat(*[_byterev(x[w * j:w * (j + 1)]) for j in range(k)])
        if not K.check(same(raw(a.data), exp), 'Array.byteswap must byte-reverse every item', got=raw(a.data), expected=exp):
            return False
        a.byteswap()
        return K.check(same(raw(a.data), x), 'Array.byteswap twice is not the identity')
    return h


def conditions(tier):
    q = tier == 'quick'
    conds = []
    T = 200 if q else 450

    def add(cid, fn, bounds, **params):
        conds.append(Cond(cid, fn, bounds, D, params, timeout=T))

    for prefix in '><=@':
        for code in list(INT_CODES) + list(FLOAT_CODES):
            for count in ([1, 2] if (not q or code in 'bHq') else [1]):
                add(f'C18.struct[{prefix}{count if count > 1 else ""}{code}]', h_struct(prefix, code, count),
                    f'every value of the code range ({"float64 inputs" if code in FLOAT_CODES else "full integer range"}) x count {count}', prefix=prefix, code=code, count=count)
    for fmt, codes in [('>bH', 'bH'), ('<hBq', 'hBq'), ('=Hb', 'Hb'), ('@bH', 'bH'), ('@BB', 'BB'), ('>2hB', 'hhB')]:
        add(f'C18.struct-mixed[{fmt}]', h_struct_mixed(fmt, codes), 'every value tuple over the full ranges', prefix=fmt[0], code='mixed', fmt=fmt)
    ne = 'le' if LITTLE else 'be'
    other = '>' if LITTLE else '<'
    lw = array.array('l').itemsize * 8      # 'l'/'L' are 8 bytes on LP64 platforms and 4 elsewhere: the width that matters is the array's own
    for typecode, ok, bad in [('h', '=h', ['=H', '=b', '=i', other + 'h']), ('B', '=B', ['=b', '=H']), ('i', f'int{ne}32', ['=I', '=h', '=q']), ('H', f'uint{ne}16', ['=h', '=I', other + 'H']),
                              ('b', 'int8', ['=B', '=h']), ('I', f'uint{ne}32', ['=i', '=H', other + 'I']), ('q', f'int{ne}64', ['=Q', '=i', other + 'q']), ('Q', f'uint{ne}64', ['=q', '=I']),
                              ('l', f'int{ne}{lw}', [f'int{ne}{96 - lw}', f'uint{ne}{lw}']), ('L', f'uint{ne}{lw}', [f'uint{ne}{96 - lw}', f'int{ne}{lw}']),
                              ('f', f'float{ne}32', ['=d', '=i', other + 'f', f'uint{ne}32']), ('d', f'float{ne}64', ['=f', '=q', other + 'd'])]:
        add(f'C18.array-input[{typecode}]', h_array_input(typecode, ok, bad), 'solver-enumerated boundary values (0, +-1, min, max)', typecode=typecode)
    for nb in ([1, 2, 3] if q else [1, 2, 3, 4, 8]):
        for kind in ('uint', 'int'):
            add(f'C18.endian-relation[{kind},{nb} bytes]', h_endian_relation(nb, kind), f'all {8 * nb}-bit contents')
    for nb in (2, 4, 8):
        add(f'C18.endian-relation[float,{nb} bytes]', h_endian_relation(nb, 'float'), f'all {8 * nb}-bit contents (NaN excepted)')
    for nb in ([2, 3] if q else [1, 2, 3, 4, 8]):
        add(f'C18.byteswap-convert[uint,{nb} bytes]', h_byteswap_convert(nb, 'uint'), f'every {8 * nb}-bit unsigned value')
    for nb in ([3, 4] if q else [0, 1, 3, 4, 6, 8]):
        add(f'C18.byteswap-involution[{nb} bytes]', h_byteswap_convert(nb, 'pattern'), f'all {8 * nb}-bit contents x 8 byteswap patterns')
    for code in (['h', 'l', 'L'] if q else ['b', 'B', 'h', 'H', 'l', 'L', 'i', 'I', 'q', 'Q']):
        add(f'C18.byteswap-code[{code}]', h_byteswap_code(code, 2), 'every pair of values of the code x 4 spellings of the pattern', code=code)
    for dtype, w in [('uint16', 16), ('intle24', 24), ('uint5', 5), ('float32', 32)]:
        add(f'C18.array-byteswap[{dtype}]', h_array_byteswap(dtype, w, 2), f'all data of two {w}-bit items')
    return conds
