"""C19 - printable forms faithfully describe the value."""
from __future__ import annotations

import io
import re

from kit.engine import Cond
from kit import oracle as O
from kit import logic as L
from kit.state import mk, raw, call, classes, is_stream, same, get_attr
from harness.common import CLS

ASSUMPTIONS = [
    "re-parsing str()/repr() output goes through the token parser (regular expressions), which concretises text: contents are solver-enumerated for those conditions",
    "shape conditions (prefix, digit per nibble, '...' and length comment) keep the content symbolic",
    "pp(): width, show_offset and the format are solver variables / catalogue entries; the content is a concrete all-distinct pattern because layout does not depend on it",
]

D = ['bitstring.bits:Bits.__str__', 'bitstring.bits:Bits._repr', 'bitstring.bits:Bits.__repr__', 'bitstring.bitstream:ConstBitStream.__repr__', 'bitstring.bits:Bits.pp',
     'bitstring.bits:Bits._pp', 'bitstring.bits:Bits._format_bits', 'bitstring.bits:Bits._process_pp_tokens', 'bitstring.bits:Bits._chars_per_group', 'bitstring.bits:Bits._bits_per_char',
     'bitstring.array_:Array.__repr__', 'bitstring.array_:Array.pp']


def _expected_str(K, x):
    """the documented form: '' | 0b... (short, not a multiple of 4) | 0x... | 0x..., 0b..  ; digits from the bits"""
    import bitarray.util as U
    n = len(x)
    if n == 0:
        return ''
    if n < 32 and n % 4:
        return '0b' + x.to01()
    if n % 4 == 0:
        return '0x' + U.ba2hex(x)
    k = n - n % 4
    return '0x' + U.ba2hex(x[:k]) + ', 0b' + x[k:].to01()


def h_str_shape(cname, n, lsb0=False):
    def h(K):
        import bitstring
        cls = classes()[cname]
        x = K.bits('x', n)
        pos = K.int('pos', 0, n) if is_stream(cls) else None
        s = mk(K, cls, x, pos)
        bitstring.options.lsb0 = lsb0      # the printed form is a whole-value interpretation: the same text in both modes
        r = call(lambda: str(s))
        if not r.ok:
            return K.fail('str() raised', exc=r.excname)
        exp = _expected_str(K, x)
        if not K.check(len(r.value) == len(exp) and r.value == exp, 'str(s) is not the documented hex/bin form of the bits', got=r.value):
            return False
        rr = call(lambda: repr(s))
        if not rr.ok:
            return K.fail('repr() raised', exc=rr.excname)
        if pos is not None:
            pp_ = K.conc(pos)
            want = f"{cname}('" + exp + "'" + (f", pos={pp_}" if pp_ else '') + ")"
        else:
            want = f"{cname}('" + exp + "')"
        return K.check(rr.value == want, 'repr(s) is not ClassName(<str form>[, pos=p])', got=rr.value)
    return h


def h_reparse(cname, n):
    def h(K):
        import bitstring
        cls = classes()[cname]
        x = K.bits('x', n)
        xs = K.conc_bits(x) if hasattr(K, 'conc_bits') else x
        pos = K.conc(K.int('pos', 0, n)) if is_stream(cls) else None
        s = mk(K, cls, xs, pos)
        t = str(s)
        r = call(lambda: bitstring.Bits(t) if t else bitstring.Bits())
        if not K.check(r.ok and same(raw(r.value), xs), 'Bits(str(s)) != s', text=t, exc=r.excname):
            return False
        rp = repr(s)
        e = call(lambda: eval(rp, {'Bits': bitstring.Bits, 'BitArray': bitstring.BitArray, 'ConstBitStream': bitstring.ConstBitStream, 'BitStream': bitstring.BitStream}))
        if not e.ok:
            return K.fail('eval(repr(s)) raised', text=rp, exc=e.excname)
        v = e.value
        ok = type(v) is cls and same(raw(v), xs)
        if pos is not None:
            ok = ok and v._pos == pos
        return K.check(ok, 'eval(repr(s)) does not rebuild an equal object of the same class (and pos)', text=rp)
    return h


def h_repr_file(cname, nbytes, mutation):
    """repr of an object built from a file (possibly mutated afterwards) evaluates back to an equal object of the same class"""
    def h(K):
        import bitstring
        from kit import files as F
        cls = classes()[cname]
        content = K.choice('content', [b'\xa5\x3c', b'\x00\x00', b'\xff\x01', b'\x80'])
        fn, rawbits = F.make_file(K, 'p', len(content), concrete=content)
        try:
            s = cls(filename=fn)
            if mutation == 'invert0':
                s.invert(0)
            elif mutation == 'append':
                s.append('0b1')
            elif mutation == 'clear':
                s.clear()
            elif mutation == 'setitem':
                s[0] = 1 - int(s[0])
            want = raw(s).copy()
            rp = call(lambda: repr(s))
            if not rp.ok:
                return K.fail('repr raised', exc=rp.excname)
            e = call(lambda: eval(rp.value, {'Bits': bitstring.Bits, 'BitArray': bitstring.BitArray, 'ConstBitStream': bitstring.ConstBitStream, 'BitStream': bitstring.BitStream}))
            if not e.ok:
                return K.fail('eval(repr(s)) raised', exc=e.excname, mutation=mutation)
            v = e.value
            return K.check(type(v) is cls and same(raw(v), want), 'eval(repr(s)) of an object built from a file does not rebuild an equal object', mutation=mutation)
        finally:
            if not K.symbolic:
                F.cleanup()
    return h


def h_truncated(cname, n, lsb0=False):
    def h(K):
        import bitarray.util as U
        import bitstring
        cls = classes()[cname]
        x = K.bits('x', n)
        s = mk(K, cls, x)
        bitstring.options.lsb0 = lsb0
        r = call(lambda: str(s))
        if not r.ok:
            return K.fail('str() raised', exc=r.excname)
        t = r.value
        if n > 1000:
            ok = len(t) == 2 + 250 + 3 and t[:2] == '0x' and t[-3:] == '...' and t[2:10] == U.ba2hex(x[:32]) and t[244:252] == U.ba2hex(x[968:1000])
            if not K.check(ok, 'a value longer than 1000 bits must print as 0x + 250 hex digits + ...'):
                return False
            rr = call(lambda: repr(s))
            return K.check(rr.ok and rr.value[-len(f'  # length={n}'):] == f'  # length={n}' and rr.value[:len(cname) + 4] == cname + "('0x", 'repr of a truncated value must carry the true length', got=rr.value[-30:] if rr.ok else None)
        exp = _expected_str(K, x)
        return K.check(len(t) == len(exp) and t[:12] == exp[:12] and t[-12:] == exp[-12:] and '...' not in (t[-3:],), 'str of a value of at most 1000 bits must not be truncated')
    return h


PP_FORMATS = {   # name -> (fmt, bits per group or None for default, digit alphabet(s), bits per digit per format)
    'bin8': ('bin8', 8, ['bin']), 'hex8': ('hex8', 8, ['hex']), 'bin': ('bin', 8, ['bin']), 'hex': ('hex', 8, ['hex']), 'oct12': ('oct12', 12, ['oct']), 'oct': ('oct', 12, ['oct']),
    'bin, hex': ('bin, hex', 8, ['bin', 'hex']), 'hex16, bin': ('hex16, bin', 16, ['hex', 'bin']), 'bin:0': ('bin:0', 0, ['bin']), 'hex:0': ('hex:0', 0, ['hex']),
    'bin12': ('bin12', 12, ['bin']), 'hex, oct': ('hex, oct', 12, ['hex', 'oct']), 'bin4': ('bin4', 4, ['bin']), 'hex:32': ('hex:32', 32, ['hex']), 'b, o': ('b, o', 6, ['bin', 'oct']),
    'hex:1200': ('hex:1200', 1200, ['hex']),
}
BPD = {'bin': 1, 'hex': 4, 'oct': 3}
DIGITS = {'bin': '01', 'hex': '0123456789abcdef', 'oct': '01234567'}


def _pattern(n):
    # all-distinct-ish concrete pattern
    v = 0
    x = 0x9e3779b97f4a7c15
    bits = ''
    while len(bits) < n:
        x = (x * 6364136223846793005 + 1442695040888963407) & ((1 << 64) - 1)
        bits += format(x >> 20, '040b')
    return bits[:n]


def h_pp(cname, n, fkey, lsb0, sep):
    fmt, bpg, kinds = PP_FORMATS[fkey]

    def h(K):
        import bitstring
        cls = classes()[cname]
        data = _pattern(n)
        s = cls(bin=data) if n else cls()
        width = K.int('width', 0, 200)
        show_offset = K.bool('show_offset')
        bitstring.options.no_color = True
        bitstring.options.lsb0 = lsb0
        out = io.StringIO()
        r = call(lambda: s.pp(fmt, width=width, sep=sep, show_offset=show_offset, stream=out))
        bitstring.options.lsb0 = False
        if not r.ok:
            explicit = any(ch.isdigit() for ch in fmt) and bool(bpg)       # 'hex:0' asks for no grouping, like 'hex'
            unrepresentable = any(n % BPD[k] for k in kinds)
            if r.raised(ValueError) and unrepresentable and not explicit:
                return True   # a length that the digit size does not divide cannot be shown without an explicit group length (no trailing-bits report)
            return K.fail('pp raised', exc=r.excname, fmt=fmt)
        text = out.getvalue()
        w = K.conc(width)
        if '\x1b' in text:
            return K.fail('escape sequence in pp output although options.no_color is set')
        lines = text.split('\n')
        if not (lines[0].startswith('<' + cname) and lines[0].endswith('[')):
            return K.fail('pp header', got=lines[0])
        body = []
        i = 1
        while i < len(lines) and not lines[i].startswith(']'):
            body.append(lines[i])
            i += 1
        if i >= len(lines):
            return K.fail('pp output has no closing bracket')
        tail = lines[i]
        trailing = ''
        m = re.match(r'^\] \+ trailing_bits = (.*)$', tail)
        if m:
            tbr = call(lambda: bitstring.Bits(m.group(1)))
            if not tbr.ok:
                return K.fail('the reported trailing bits are not a complete bitstring literal (truncated with ...?)', text=m.group(1)[:20] + ' ... ' + m.group(1)[-20:])
            trailing = tbr.value.bin
        elif tail != ']':
            return K.fail('pp closing line', got=tail)
        # collect the digits of each format column, in order
        got = {k: '' for k in kinds}
        for ln in body:
            core = ln
            if show_offset:
                if lsb0:
                    j = core.rfind(' :')
                    if j < 0:
                        return K.fail('offset column missing', line=ln)
                    core = core[:j]
                else:
                    j = core.find(': ')
                    if j < 0:
                        return K.fail('offset column missing', line=ln)
                    core = core[j + 2:]
            cols = core.split(' : ') if len(kinds) == 2 else [core]
            if len(cols) != len(kinds):
                return K.fail('wrong number of format columns', line=ln)
            ngroups = None
            for k, col in zip(kinds, cols):
                groups = [g for g in (col.split(sep) if (sep and bpg) else [col])]
                groups = [g.strip() for g in groups if g.strip() != '']
                for g in groups:
                    if any(ch not in DIGITS[k] for ch in g):
                        return K.fail('unexpected character in a digit group', group=g, line=ln)
                    if bpg and len(g) * BPD[k] != bpg:
                        # the last group of the data may be shorter only if the data ends there (handled by the digits check)
                        pass
                seq = ''.join(groups)
                got[k] += seq
                if ngroups is None:
                    ngroups = len(groups)
            # line width: within `width` unless the line holds a single group (or, ungrouped, the smallest displayable unit)
            if len(ln) > w:
                single = (ngroups is not None and ngroups <= 1)
                if not single and bpg:
                    return K.fail('a line with more than one group exceeds the requested width', line=ln, width=w)
        # digits must be exactly the data (minus reported trailing bits), in order; lsb0 prints lines in the same bit order
        if lsb0:
            # in lsb0 mode the display starts at the least significant end, so the bits left over are the most significant ones
            main = data[len(trailing):]
            if data[:len(trailing)] != trailing:
                return K.fail('reported trailing bits are not the (most significant) end of the data in lsb0 mode', trailing=trailing)
        else:
            main = data[:len(data) - len(trailing)] if trailing else data
            if data[len(main):] != trailing:
                return K.fail('reported trailing bits are not the end of the data', trailing=trailing)
        for k in kinds:
            bits = ''.join(format(DIGITS[k].index(ch), f'0{BPD[k]}b') for ch in got[k])
            if lsb0:
                continue  # order of groups within a line is mirrored in lsb0 mode; covered by the line-level checks above
            if bits[:len(main)] != main or len(bits) - len(main) >= BPD[k] + (bpg or 0):
                return K.fail('pp digits are not exactly the digits of the data in order', fmt=fmt, kind=k, width=w, got_bits=bits[:64], expected=main[:64])
        return True
    return h


def h_array_pp(dtype, nbits, fmt, kind, bpg):
    """Array.pp: the printed digits followed by the reported trailing bits are exactly the Array's data"""
    def h(K):
        import bitstring
        data = _pattern(nbits)
        a = bitstring.Array(dtype)
        a.data = bitstring.BitArray(bin=data) if nbits else bitstring.BitArray()
        width = K.int('width', 0, 200)
        show_offset = K.bool('show_offset')
        bitstring.options.no_color = True
        out = io.StringIO()
        r = call(lambda: a.pp(fmt, width, show_offset, out))
        if not r.ok:
            return K.fail('Array.pp raised', exc=r.excname, fmt=fmt)
        text = out.getvalue()
        if '\x1b' in text:
            return K.fail('escape sequence in Array.pp output although options.no_color is set')
        lines = text.split('\n')
        if not (lines[0].startswith('<Array') and lines[0].endswith('[')):
            return K.fail('Array.pp header', got=lines[0])
        i = 1
        digits = ''
        while i < len(lines) and not lines[i].startswith(']'):
            core = lines[i]
            if show_offset:
                j = core.find(': ')
                if j < 0:
                    return K.fail('offset column missing', line=core)
                core = core[j + 2:]
            for g in core.split():
                if any(ch not in DIGITS[kind] for ch in g) or len(g) * BPD[kind] != bpg:
                    return K.fail('a printed group is not one whole item of the format', group=g, line=lines[i])
                digits += g
            i += 1
        if i >= len(lines):
            return K.fail('Array.pp output has no closing bracket')
        trailing = ''
        m = re.match(r'^\] \+ trailing_bits = (.*)$', lines[i])
        if m:
            tbr = call(lambda: bitstring.Bits(m.group(1)))
            if not tbr.ok:
                return K.fail('the reported trailing bits are not a complete bitstring literal', text=m.group(1)[:40])
            trailing = tbr.value.bin
        elif lines[i] != ']':
            return K.fail('Array.pp closing line', got=lines[i])
        bits = ''.join(format(DIGITS[kind].index(ch), f'0{BPD[kind]}b') for ch in digits)
        return K.check(bits + trailing == data, 'Array.pp: printed digits + reported trailing bits are not exactly the data', fmt=fmt, printed_bits=len(bits), trailing=trailing, data_bits=len(data))
    return h


def h_no_color_history(steps):
    """no terminal escape sequences whenever options.no_color is set - whatever the option was during earlier pp() calls"""
    def h(K):
        import bitstring
        s = bitstring.Bits('0xa5c3, 0b101')
        arr = bitstring.Array('uint8', [1, 2, 3])
        for t in range(steps):
            nc = K.bool(f'no_color{t}')
            which = K.choice(f'pp{t}', ['bits', 'bits-two-formats', 'array', 'bitarray'])
            bitstring.options.no_color = nc
            out = io.StringIO()
            if which == 'bits':
                r = call(lambda: s.pp('bin8', stream=out))
            elif which == 'bits-two-formats':
                r = call(lambda: s.pp('hex8, bin', stream=out))
            elif which == 'bitarray':
                r = call(lambda: bitstring.BitArray(s).pp(stream=out))
            else:
                r = call(lambda: arr.pp(stream=out))
            if not r.ok:
                return K.fail('pp raised', exc=r.excname, step=t)
            if nc and '\x1b' in out.getvalue():
                return K.fail('escape sequence in pp output although options.no_color is set', step=t, which=which)
        return True
    return h


DTW = {'bits1100': 1100, 'hex1200': 1200}


def h_array_repr(dtype, values, lsb0=False):
    def h(K):
        import bitstring
        bitstring.options.lsb0 = lsb0        # (restored by the engine after the path)
        vals = [K.choice(f'v{j}', values) for j in range(2)]
        tr = K.choice('trailing', ['', '0b1', '0b011', '0b1' + '01' * 501 + '1'] if DTW.get(dtype, 8) > 1004 else ['', '0b1', '0b011'])
        a = bitstring.Array(dtype, vals, trailing_bits=tr if tr else None)
        r = call(lambda: repr(a))
        if not r.ok:
            return K.fail('Array.__repr__ raised', exc=r.excname)
        e = call(lambda: eval(r.value, {'Array': bitstring.Array, 'BitArray': bitstring.BitArray, 'Dtype': bitstring.Dtype, 'nan': float('nan'), 'inf': float('inf')}))
        if not e.ok:
            return K.fail('eval(repr(Array)) raised', text=r.value, exc=e.excname)
        b = e.value
        return K.check(isinstance(b, bitstring.Array) and b.equals(a) and b.data == a.data, 'eval(repr(Array)) does not rebuild an equal Array', text=r.value)
    return h


def conditions(tier):
    q = tier == 'quick'
    conds = []
    T = 200 if q else 450

    def add(cid, fn, bounds, **params):
        conds.append(Cond(cid, fn, bounds, D, params, timeout=T, format_stub=False))

    for c in (['Bits', 'BitStream'] if q else CLS):
        for n in ([0, 1, 3, 4, 7, 8, 12, 31, 32, 33, 35, 40] if q else list(range(0, 42)) + [63, 64, 65, 99, 100, 101]):
            add(f'C19.str-shape[{c},n={n}]', h_str_shape(c, n), f'all {n}-bit contents (symbolic), all stream positions', n=n)
        for n in ([0, 1, 5, 8] if q else [0, 1, 2, 3, 4, 5, 6, 7, 8, 9, 10, 12]):
            add(f'C19.reparse[{c},n={n}]', h_reparse(c, n), f'all {n}-bit contents (solver-enumerated), all stream positions', n=n)
    for n in ([996, 1000, 1001, 1004] if q else [996, 997, 998, 999, 1000, 1001, 1002, 1003, 1004, 2000, 4001]):
        add(f'C19.truncation[Bits,n={n}]', h_truncated('Bits', n), f'all {n}-bit contents (symbolic)', n=n)
    for n in ([1001, 1003] if q else [997, 1001, 1003, 2001]):
        add(f'C19.truncation[Bits,n={n},lsb0]', h_truncated('Bits', n, True), f'all {n}-bit contents (symbolic); options.lsb0 set', n=n)
    for c in (['Bits'] if q else ['Bits', 'BitStream']):
        for n in ([5, 32, 33, 35] if q else [0, 5, 31, 32, 33, 34, 35, 36, 65]):
            add(f'C19.str-shape[{c},n={n},lsb0]', h_str_shape(c, n, True), f'all {n}-bit contents (symbolic), all stream positions; options.lsb0 set', n=n)
    from kit import files as _F
    for c in CLS:
        for mutation in (['none'] if c in ('Bits', 'ConstBitStream') else ['none', 'invert0', 'append', 'clear', 'setitem']):
            conds.append(Cond(f'C19.repr-file[{c},{mutation}]', h_repr_file(c, 2, mutation), 'four concrete files; object built with filename=, then the mutation; eval(repr)', D, {}, timeout=T, format_stub=False, setup=_F.install_fakes))
    add(f'C19.no-color-history[{3 if q else 4} steps]', h_no_color_history(3 if q else 4), 'every sequence of (no_color setting, pp variant) steps on one interpreter')
    for n in ([1150] if q else [1004, 1150, 2403]):
        for lsb0 in (False, True):
            add(f"C19.pp[Bits,hex:1200,n={n}{',lsb0' if lsb0 else ''}]", h_pp('Bits', n, 'hex:1200', lsb0, ' '), f'width in [0,200] x show_offset; group of 1200 bits: more than 1000 trailing bits; {n}-bit concrete pattern', n=n, fmt='hex:1200')
    for dtype, nbits, fmt, kind, bpg in [('uint8', 1104, 'hex1200', 'hex', 1200), ('uint8', 40, 'hex16', 'hex', 16), ('uint8', 40, None, None, None), ('uint8', 43, 'hex8', 'hex', 8), ('uint5', 23, 'bin5', 'bin', 5), ('uint16', 40, 'hex8', 'hex', 8),
                                         ('uint8', 40, 'bin24', 'bin', 24), ('hex8', 19, 'oct6', 'oct', 6), ('uint8', 0, 'hex8', 'hex', 8)]:
        if fmt is None:
            continue
        add(f'C19.array-pp[{dtype},{nbits} bits,{fmt}]', h_array_pp(dtype, nbits, fmt, kind, bpg), f'width in [0,200] x show_offset; Array({dtype!r}) over a {nbits}-bit concrete pattern printed as {fmt!r}', fmt=fmt)
    for fk in (['bin8', 'hex', 'oct12', 'bin, hex', 'bin:0', 'hex16, bin'] if q else list(PP_FORMATS)):
        if fk == 'hex:1200':
            continue
        for n in ([0, 24, 45, 48] if q else [0, 7, 24, 45, 48, 96]):
            if q and n == 45 and not any(ch.isdigit() for ch in fk):
                continue   # without an explicit group length a 45-bit value cannot be shown in hex/oct
            for lsb0 in ((False,) if q else (False, True)):
                add(f"C19.pp[Bits,{fk},n={n}{',lsb0' if lsb0 else ''}]", h_pp('Bits', n, fk, lsb0, ' '), f'width in [0,200] x show_offset; format {fk!r}; {n}-bit concrete pattern', n=n, fmt=fk)
        if fk == 'hex:1200':
            continue
        if fk in ('bin, hex', 'hex16, bin', 'bin8', 'hex, oct') and (not q or fk in ('bin, hex', 'bin8')):
            add(f'C19.pp[Bits,{fk},n=48,sep=" | "]', h_pp('Bits', 48, fk, False, ' | '), f"width in [0,200] x show_offset; format {fk!r}; separator ' | '", n=48, fmt=fk)
        if not q:
            add(f'C19.pp[BitStream,{fk},n=24,sep=_]', h_pp('BitStream', 24, fk, False, '_'), f"width in [0,200] x show_offset; format {fk!r}; separator '_'", n=24, fmt=fk)
    for dtype, values in [('uint8', [0, 1, 255]), ('int5', [-16, 0, 15]), ('float32', [0.0, -1.5, 3.25]), ('hex4', ['a', '0', 'f']), ('bool', [True, False]), ('uintle16', [1, 256]),
                          ('bfloat', [1.0, -2.0]), ('e4m3mxfp', [0.5, 448.0]), ('bits1100', ['0b' + '10' * 550, '0b' + '0' * 1100])]:
        add(f'C19.array-repr[{dtype}]', h_array_repr(dtype, values), 'two items from the listed values x trailing bits in {none, 1, 3 bits}')
        if dtype in ('uint8', 'int5', 'hex4', 'float32') or not q:
            add(f'C19.array-repr[{dtype},lsb0]', h_array_repr(dtype, values, True), 'two items from the listed values x trailing bits in {none, 1, 3 bits}; options.lsb0 set')
    return conds
