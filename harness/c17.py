"""C17 - byte and file serialisation is lossless and zero-padded."""
from __future__ import annotations

import io

from kit.engine import Cond
from kit import oracle as O
from kit import logic as L
from kit import files as F
from kit.state import mk, raw, call, classes, same, get_attr
from harness.common import CLS

ASSUMPTIONS = [
    "file routes: open/mmap inside bitstring.bits are faked in the symbolic run (mapped buffer = model bitarray with symbolic content; contract: mmap yields exactly the file's bytes); "
    "replays use a real temporary file and the real mmap",
    "tofile: with the guarded hook (SCOTT_GRIFFITHS_BITSTRING_VERIF=1) the chunk size is lowered to a few bytes so that the chunk boundary is crossed; the 100 MiB production value itself is not exercised",
    "BytesIO content is concrete (its C constructor concretises); the window (offset, length) is symbolic",
]

D = ['bitstring.bitstore:BitStore.tobytes', 'bitstring.bits:Bits.tobytes', 'bitstring.bits:Bits.__bytes__', 'bitstring.bits:Bits._getbytes', 'bitstring.bits:Bits.tofile',
     'bitstring.bits:Bits.cut', 'bitstring.bits:Bits._setbytes_with_truncation', 'bitstring.bits:Bits._setfile', 'bitstring.bits:Bits._setauto', 'bitstring.bitstore:BitStore.frombuffer',
     'bitstring.array_:Array.tobytes', 'bitstring.array_:Array.tofile', 'bitstring.array_:Array.fromfile']


def _padded(x):
    n = len(x)
    return O.ref_concat(x, O.zeros((-n) % 8))


def h_tobytes(cname, n):
    def h(K):
        cls = classes()[cname]
        x = K.bits('x', n)
        s = mk(K, cls, x)
        exp = _padded(x)
        for nm, g in {'tobytes': lambda: s.tobytes(), 'bytes()': lambda: s.__bytes__()}.items():
            r = call(g)
            if not r.ok:
                return K.fail(nm + ' raised', exc=r.excname)
            got = O.empty()
            got.frombytes(r.value)
            if not K.check(len(r.value) == (n + 7) // 8 and same(got, exp), nm + ' is not the bits followed by 0-7 zero bits', got=got, expected=exp):
                return False
        r = call(lambda: s.bytes)
        if n % 8:
            return K.check(r.raised(ValueError), 'the bytes property must refuse lengths that are not whole bytes', exc=r.excname)
        got = O.empty()
        if r.ok:
            got.frombytes(r.value)
        return K.check(r.ok and same(got, x) and same(raw(s), x), 'bytes property', exc=r.excname)
    return h


def h_tofile(cname, n, chunk_bits, lsb0=False):
    def h(K):
        import bitstring
        cls = classes()[cname]
        x = K.bits('x', n)
        s = mk(K, cls, x)
        bitstring._verif_tofile_chunk_bits = chunk_bits
        bitstring.options.lsb0 = lsb0       # what is written is the stored order in both modes (tobytes() is a whole-value interpretation)
        try:
            if K.symbolic:
                w = F.FakeWriter()
                r = call(lambda: s.tofile(w))
                got = w.bits()
            else:
                buf = io.BytesIO()
                r = call(lambda: s.tofile(buf))
                got = O.empty()
                got.frombytes(buf.getvalue())
        finally:
            del bitstring._verif_tofile_chunk_bits
            bitstring.options.lsb0 = False
        if not r.ok:
            return K.fail('tofile raised', exc=r.excname)
        return K.check(same(got, _padded(x)) and same(raw(s), x), 'tofile must write exactly tobytes()', got=got, expected=_padded(x), chunk_bits=chunk_bits)
    return h


def h_file_window(cname, nbytes, via, lsb0=False):
    """filename= / file handle with offset and length: exactly the selected window, or CreationError"""
    def h(K):
        import bitstring
        cls = classes()[cname]
        fn, rawbits = F.make_file(K, 'w', nbytes)
        total = 8 * nbytes
        try:
            off = K.opt_int('offset', -2, total + 2)
            ln = K.opt_int('length', -2, total + 2)
            bitstring.options.lsb0 = lsb0     # the selected window is defined on the stored (msb0) bit order in both modes
            try:
                if via == 'filename':
                    r = call(lambda: cls(filename=fn, length=ln, offset=off))
                elif via == 'bytes':
                    r = call(lambda: cls(bytes=rawbits.tobytes(), length=ln, offset=off))
                else:
                    hdl = F.open_handle(K, fn, 'r+b' if via == 'handle-r+b' else 'rb')
                    try:
                        r = call(lambda: cls(hdl, length=ln, offset=off))
                    finally:
                        hdl.close()
            finally:
                bitstring.options.lsb0 = False
            o = 0 if off is None else off
            valid = (o >= 0) and (o <= total)
            if ln is not None:
                valid = valid and (ln >= 0) and (o + ln <= total)
            if not valid:
                if r.ok:
                    return K.fail('offset/length beyond the file accepted', offset=off, length=ln, got_len=len(r.value))
                return K.check(r.raised(ValueError), 'offset/length beyond the file must raise CreationError (ValueError)', exc=r.excname)
            if not r.ok:
                return K.fail('valid file window rejected', exc=r.excname, offset=off, length=ln)
            oo = K.conc(o)
            ll = total - oo if ln is None else K.conc(ln)
            t = r.value
            if len(t) != ll:
                return K.fail('file-backed bitstring has the wrong length', got=len(t), expected=ll)
            tb = call(lambda: t.tobytes())
            got = O.empty()
            if tb.ok:
                got.frombytes(tb.value)
            exp = rawbits[oo:oo + ll]
            return K.check(tb.ok and same(got, _padded(exp)) and same(t._bitstore.getslice(None, None)._bitarray, exp),
                           'reading back a file window does not give exactly the selected bits', offset=oo, length=ll)
        finally:
            if not K.symbolic:
                F.cleanup()
    return h


def h_bytesio(cname, data, lsb0=False):
    def h(K):
        import bitstring
        cls = classes()[cname]
        total = 8 * len(data)
        off = K.opt_int('offset', -2, total + 2)
        ln = K.opt_int('length', -2, total + 2)
        bitstring.options.lsb0 = lsb0
        try:
            r = call(lambda: cls(io.BytesIO(data), length=ln, offset=off))
        finally:
            bitstring.options.lsb0 = False
        allbits = O.empty()
        allbits.frombytes(data)
        o = 0 if off is None else off
        valid = (o >= 0) and (o <= total)
        if ln is not None:
            valid = valid and (ln >= 0) and (o + ln <= total)
        if not valid:
            if r.ok:
                return K.fail('offset/length beyond the BytesIO data accepted', offset=off, length=ln, got_len=len(r.value))
            return K.check(r.raised(ValueError), 'offset/length beyond the data must raise CreationError (ValueError)', exc=r.excname)
        if not r.ok:
            return K.fail('valid BytesIO window rejected', exc=r.excname, offset=off, length=ln)
        oo = K.conc(o)
        ll = total - oo if ln is None else K.conc(ln)
        return K.check(same(raw(r.value), allbits[oo:oo + ll]), 'BytesIO window', offset=oo, length=ll, got=raw(r.value))
    return h


def h_roundtrip_file(cname, n):
    """tofile then read back by filename with length: the original bits"""
    def h(K):
        import bitstring
        cls = classes()[cname]
        x = K.bits('x', n)
        s = mk(K, cls, x)
        if K.symbolic:
            w = F.FakeWriter()
            s.tofile(w)
            fn = '/sbx/rt.bin'
            F._FILES[fn] = w.bits()
        else:
            import tempfile, os
            fd, fn = tempfile.mkstemp(prefix='verif_replay_')
            with os.fdopen(fd, 'wb') as fh:
                s.tofile(fh)
        try:
            if n == 0:
                r = call(lambda: cls(filename=fn))
                return K.check((not r.ok) or len(r.value) == 0, 'empty file')
            r = call(lambda: cls(filename=fn, length=n))
            if not r.ok:
                return K.fail('read back raised', exc=r.excname)
            t = r.value
            return K.check(len(t) == n and same(t._bitstore.getslice(None, None)._bitarray, x), 'tofile then filename=, length= does not recover the bits')
        finally:
            if not K.symbolic:
                os.unlink(fn)
    return h


def h_array(dtype, w, k, trailing):
    def h(K):
        import bitstring
        x = K.bits('x', w * k + trailing)
        a = bitstring.Array(dtype)
        a.data = mk(K, bitstring.BitArray, x)
        r = call(lambda: a.tobytes())
        got = O.empty()
        if r.ok:
            got.frombytes(r.value)
        if not K.check(r.ok and same(got, _padded(x)), 'Array.tobytes is not the data zero-padded to a byte boundary', exc=r.excname):
            return False
        if K.symbolic:
            wtr = F.FakeWriter()
            r = call(lambda: a.tofile(wtr))
            got = wtr.bits()
        else:
            buf = io.BytesIO()
            r = call(lambda: a.tofile(buf))
            got = O.empty()
            got.frombytes(buf.getvalue())
        return K.check(r.ok and same(got, _padded(x)), 'Array.tofile must write exactly tobytes()', exc=r.excname)
    return h


def h_array_fromfile(dtype, w, nbytes):
    def h(K):
        import bitstring
        fn, rawbits = F.make_file(K, 'a', nbytes)
        try:
            a = bitstring.Array(dtype)
            nitems = K.opt_int('n', -1, (8 * nbytes) // w + 2)
            hdl = F.open_handle(K, fn)
            try:
                r = call(lambda: a.fromfile(hdl, nitems))
            finally:
                hdl.close()
            avail = (8 * nbytes) // w
            if nitems is not None and nitems < 0:
                return True   # not specified
            want = avail if nitems is None else (nitems if nitems <= avail else avail)
            ww = K.conc(want)
            if nitems is not None and nitems > avail:
                ok = (not r.ok) and isinstance(r.exc, EOFError)
                return K.check(ok and same(raw(a.data), rawbits[:ww * w]), 'fromfile asking for more items than available must raise EOFError after appending what exists', exc=r.excname)
            if not r.ok:
                return K.fail('Array.fromfile raised', exc=r.excname)
            return K.check(same(raw(a.data), rawbits[:ww * w]), 'Array.fromfile must append exactly the first n items of the file', got=raw(a.data), n=ww)
        finally:
            if not K.symbolic:
                F.cleanup()
    return h


def conditions(tier):
    q = tier == 'quick'
    conds = []
    T = 200 if q else 450

    def add(cid, fn, bounds, setup=None, **params):
        conds.append(Cond(cid, fn, bounds, D, params, timeout=T, setup=setup))

    for c in (['Bits', 'BitStream'] if q else CLS):
        for n in ([0, 1, 7, 8, 9, 17] if q else list(range(0, 18)) + [24, 31, 32, 33, 40]):
            add(f'C17.tobytes[{c},n={n}]', h_tobytes(c, n), f'all {n}-bit contents', n=n)
        for (n, ch) in ([(0, 8), (17, 8), (24, 8), (20, 16)] if q else [(0, 8), (7, 8), (8, 8), (9, 8), (17, 8), (24, 8), (20, 16), (32, 16), (33, 16), (40, 24)]):
            add(f'C17.tofile[{c},n={n},chunk={ch}]', h_tofile(c, n, ch), f'all {n}-bit contents; chunk size {ch} bits via the guarded hook (crosses the chunk boundary)', n=n)
            if n in (17, 20, 33):
                add(f'C17.tofile[{c},n={n},chunk={ch},lsb0]', h_tofile(c, n, ch, True), f'all {n}-bit contents; chunk size {ch} bits via the guarded hook; options.lsb0 set', n=n)
    for c in (['Bits', 'BitArray'] if q else ['Bits', 'BitArray', 'ConstBitStream', 'BitStream']):
        for nb in (([0, 1, 2] if c == 'Bits' else [2]) if q else [0, 1, 2, 3]):
            for via in ('filename', 'handle') + (('handle-r+b',) if nb == 2 else ()):
                add(f'C17.file-window[{c},{via},bytes={nb}]', h_file_window(c, nb, via), f'all {nb}-byte files x offset,length in [-2,{8 * nb + 2}] or None', setup=F.install_fakes, nbytes=nb)
        for data in ([b'\xa5\x3c'] if q else [b'', b'\xa5', b'\xa5\x3c', b'\x01\x02\x03']):
            add(f'C17.bytesio-window[{c},{data.hex() or "empty"}]', h_bytesio(c, data), f'BytesIO({data!r}) x offset,length in [-2,{8 * len(data) + 2}] or None')
        add(f'C17.bytesio-window[{c},a53c,lsb0]', h_bytesio(c, b'\xa5\x3c', True), 'BytesIO window constructed while options.lsb0 is set')
        for via in ('filename', 'handle', 'bytes'):
            add(f'C17.file-window[{c},{via},bytes=2,lsb0]', h_file_window(c, 2, via, True), 'all 2-byte sources x offset,length; constructed while options.lsb0 is set', setup=F.install_fakes, nbytes=2)
        for n in ([0, 9, 16] if q else [0, 1, 8, 9, 16, 17, 24]):
            add(f'C17.tofile-readback[{c},n={n}]', h_roundtrip_file(c, n), f'all {n}-bit contents', setup=F.install_fakes, n=n)
    for dtype, w in (('uint5', 5), ('int8', 8)) if q else (('uint5', 5), ('int8', 8), ('uintle16', 16), ('hex4', 4)):
        for k, tr in ((2, 0), (2, 3)):
            add(f'C17.array-tobytes[{dtype},k={k},trailing={tr}]', h_array(dtype, w, k, tr), f'all data of {k} items + {tr} trailing bits')
        add(f'C17.array-fromfile[{dtype}]', h_array_fromfile(dtype, w, 2), 'all 2-byte files x item count', setup=F.install_fakes)
    # dtypes whose Dtype.length is not their length in bits (byte multipliers) and struct codes
    for dtype, w, nb in ((('bytes2', 16, 5), ('>H', 16, 3)) if q else (('bytes2', 16, 5), ('bytes1', 8, 2), ('bytes3', 24, 4), ('>H', 16, 3), ('<i', 32, 5))):
        add(f'C17.array-fromfile[{dtype},bytes={nb}]', h_array_fromfile(dtype, w, nb), f'all {nb}-byte files x item count', setup=F.install_fakes)
        add(f'C17.array-tobytes[{dtype},k=2,trailing=3]', h_array(dtype, w, 2, 3), 'all data of 2 items + 3 trailing bits')
    return conds
