"""C15 - out-of-range or mis-sized values are rejected, never wrapped or truncated."""
from __future__ import annotations

from kit.engine import Cond
from kit import oracle as O
from kit import logic as L
from kit.state import mk, raw, call, classes, is_stream, is_mutable, same, get_attr, set_attr
from harness.common import CLS
from harness import values as V

ASSUMPTIONS = [
    "values are every Python int (unbounded); lengths are symbolic in a stated window and solver-enumerated (each becomes a width)",
    "rejection means ValueError (CreationError is an alias of ValueError in this code base)",
    "invalid-digit classification excludes the prefix letters, underscore and whitespace, which the library strips by design",
]


def _mut(cname):
    return cname in ('BitArray', 'BitStream')


def h_int_total(cname, t, n):
    signed, order, unit = V.INT_TYPES[t]

    def h(K):
        cls = classes()[cname]
        v = K.int('v')
        ok_range = V.in_range(v, n, signed)
        for rname, (needs_mut, f) in V.CREATE.items():
            if needs_mut and not _mut(cname):
                continue
            r = call(lambda: f(cls, t, n, v))
            if ok_range:
                if not r.ok:
                    return K.fail('in-range value rejected', route=rname, exc=r.excname)
                if not K.check(V.canonical_int(K, raw(r.value), v, n, signed, order), 'in-range value: wrong length or bits', route=rname, got=raw(r.value)):
                    return False
            else:
                if r.ok:
                    return K.fail('out-of-range value accepted (wrapped or truncated)', route=rname, got=raw(r.value))
                if not r.raised(ValueError):
                    return K.fail('out-of-range value must raise CreationError (ValueError)', route=rname, exc=r.excname)
        return True
    return h


def h_prop_reject(cname, t, n):
    """a rejected property assignment leaves the target unchanged"""
    signed, order, unit = V.INT_TYPES[t]

    def h(K):
        cls = classes()[cname]
        x = K.bits('x', n)
        s = mk(K, cls, x)
        v = K.int('v')
        r = call(lambda: set_attr(s, t, v))
        if n % unit:
            # endian types need whole bytes: the assignment must be refused whatever the value
            return K.check(r.raised(ValueError) and same(raw(s), x), 'property assignment of a whole-byte type to a bitstring that is not a whole number of bytes must raise and change nothing',
                           exc=r.excname, got=raw(s), length_after=len(s))
        if V.in_range(v, n, signed):
            return K.check(r.ok and V.canonical_int(K, raw(s), v, n, signed, order), 'in-range property assignment', exc=r.excname)
        return K.check(r.raised(ValueError) and same(raw(s), x), 'rejected property assignment must raise ValueError and leave the target unchanged', exc=r.excname, got=raw(s))
    return h


def h_length(cname, t, lo, hi):
    signed, order, unit = V.INT_TYPES[t]

    def h(K):
        import bitstring
        cls = classes()[cname]
        Ls = K.int('length', lo, hi)
        n = K.conc(Ls)
        v = K.int('v', -1 if signed else 0, 0 if n < 2 else 1)
        valid = n >= 1 and n % unit == 0 and V.in_range(v, max(n, 1), signed)
        routes = {
            'kw+length': lambda: cls(**{t: v}, length=n),
            'Dtype.build': lambda: bitstring.Dtype(t, n).build(v),
            'pack-kw-length': lambda: bitstring.pack(f'{t}:n', v, n=n),
        }
        if n >= 0:
            routes['kw-name-length'] = lambda: cls(**{f'{t}{n}': v})
            routes['pack'] = lambda: bitstring.pack(f'{t}:{n}', v)
        for rn, g in routes.items():
            r = call(g)
            if valid:
                if not (r.ok and len(r.value) == n):
                    return K.fail('valid length rejected or wrong size', route=rn, exc=r.excname, n=n)
            else:
                if r.ok:
                    return K.fail('invalid length accepted', route=rn, n=n, got=len(r.value))
                if not r.raised(ValueError):
                    return K.fail('invalid length must raise CreationError (ValueError)', route=rn, exc=r.excname, n=n)
        return True
    return h


def h_float_length(cname, t):
    def h(K):
        import bitstring
        cls = classes()[cname]
        n = K.conc(K.int('length', -2, 70))
        valid = n in (16, 32, 64)
        routes = {'kw+length': lambda: cls(**{t: 1.5}, length=n), 'Dtype.build': lambda: bitstring.Dtype(t, n).build(1.5),
                  'pack-kw-length': lambda: bitstring.pack(f'{t}:n', 1.5, n=n)}
        for rn, g in routes.items():
            r = call(g)
            if valid:
                if not (r.ok and len(r.value) == n):
                    return K.fail('valid float length rejected', route=rn, exc=r.excname, n=n)
            elif r.ok or not r.raised(ValueError):
                return K.fail('invalid float length must raise CreationError', route=rn, exc=r.excname, n=n)
        return True
    return h


def h_fixed_length(cname, t, value, only):
    """dtypes with exactly one allowed length (bool: 1, bfloat: 16 ...)"""
    def h(K):
        import bitstring
        cls = classes()[cname]
        n = K.conc(K.int('length', -2, 20))
        for rn, g in {'kw+length': lambda: cls(**{t: value}, length=n), 'Dtype.build': lambda: bitstring.Dtype(t, n).build(value)}.items():
            r = call(g)
            if n == only:
                if not (r.ok and len(r.value) == only):
                    return K.fail('the allowed length was rejected', route=rn, exc=r.excname)
            elif r.ok or not r.raised(ValueError):
                return K.fail('a length other than the single allowed one must raise CreationError', route=rn, exc=r.excname, n=n)
        return True
    return h


MISMATCH = [  # (how, expected bits or None for rejection)
    ("pack('hex:8', 'abc')", lambda b: b.pack('hex:8', 'abc'), None),
    ("pack('hex:12', 'abc')", lambda b: b.pack('hex:12', 'abc'), '101010111100'),
    ("Bits('hex:8=abc')", lambda b: b.Bits('hex:8=abc'), None),
    ("Bits('bin:3=01')", lambda b: b.Bits('bin:3=01'), None),
    ("Bits('bin:2=01')", lambda b: b.Bits('bin:2=01'), '01'),
    ("Bits('oct:6=7')", lambda b: b.Bits('oct:6=7'), None),
    ("pack('bits:5', Bits(3))", lambda b: b.pack('bits:5', b.Bits(3)), None),
    ("pack('bits:3', Bits(3))", lambda b: b.pack('bits:3', b.Bits(3)), '000'),
    ("pack('bytes:2', b'a')", lambda b: b.pack('bytes:2', b'a'), None),
    ("pack('bytes:1', b'a')", lambda b: b.pack('bytes:1', b'a'), '01100001'),
    ("Bits(hex='abc', length=8)", lambda b: b.Bits(hex='abc', length=8), None),
    ("Bits(hex8='abc')", lambda b: b.Bits(hex8='abc'), None),
    ("Bits(uint=300, int=5, length=8)", lambda b: b.Bits(uint=300, int=5, length=8), None),
    ("BitArray(hex='a', bin='1')", lambda b: b.BitArray(hex='a', bin='1'), None),
    ("Bits('0x1', uint=300, length=8)", lambda b: b.Bits('0x1', uint=300), None),
    ("BitStream(uint=3, length=8, pos=2)", lambda b: b.BitStream(uint=3, length=8, pos=2), '00000011'),
    ("Bits(hex='ab', length=0)", lambda b: b.Bits(hex='ab', length=0), None),
    ("BitArray(bin='1', length=0)", lambda b: b.BitArray(bin='1', length=0), None),
    ("Bits(hex0='ab')", lambda b: b.Bits(hex0='ab'), None),
    ("BitStream(bytes0=b'a')", lambda b: b.BitStream(bytes0=b'a'), None),
    ("Bits(bits='0b1', length=0)", lambda b: b.Bits(bits='0b1', length=0), None),
    ("Bits(oct='7', length=0)", lambda b: b.Bits(oct='7', length=0), None),
    ("Bits(hex='', length=0)", lambda b: b.Bits(hex='', length=0), ''),
    ("Bits(bin0='')", lambda b: b.Bits(bin0=''), ''),
    ("Bits(hex12='abc')", lambda b: b.Bits(hex12='abc'), '101010111100'),
    ("BitArray(bin2='101')", lambda b: b.BitArray(bin2='101'), None),
    ("BitStream(bin4='1')", lambda b: b.BitStream(bin4='1'), None),
    ("Bits(bytes1=b'ab')", lambda b: b.Bits(bytes1=b'ab'), None),
    ("Bits(bytes2=b'ab')", lambda b: b.Bits(bytes2=b'ab'), '0110000101100010'),
    ("ConstBitStream(oct6='777')", lambda b: b.ConstBitStream(oct6='777'), None),
    ("Bits(bits3='0b11')", lambda b: b.Bits(bits3='0b11'), None),
    ("Bits(bits2='0b11')", lambda b: b.Bits(bits2='0b11'), '11'),
    ("Bits(bin='01', length=3)", lambda b: b.Bits(bin='01', length=3), None),
    ("Bits(bool=True, length=2)", lambda b: b.Bits(bool=True, length=2), None),
    ("Bits(bool=2)", lambda b: b.Bits(bool=2), None),
    ("Bits(bool='yes')", lambda b: b.Bits(bool='yes'), None),
    ("Bits(uint=1)", lambda b: b.Bits(uint=1), None),
    ("Bits(int=-1)", lambda b: b.Bits(int=-1), None),
    ("Bits(float=1.0)", lambda b: b.Bits(float=1.0), None),
    ("Bits(uintbe=1, length=12)", lambda b: b.Bits(uintbe=1, length=12), None),
    ("Bits(intle=1, length=7)", lambda b: b.Bits(intle=1, length=7), None),
    ("Bits('uintle:12=1')", lambda b: b.Bits('uintle:12=1'), None),
    ("pack('uint:8', 1, 2)", lambda b: b.pack('uint:8', 1, 2), None),
    ("pack('uint:8, uint:8', 1)", lambda b: b.pack('uint:8, uint:8', 1), None),
    ("pack('2*uint:4', 1, 2)", lambda b: b.pack('2*uint:4', 1, 2), '00010010'),
    ("Dtype('hex', 8).build('abc')", lambda b: b.Dtype('hex', 8).build('abc'), None),
    ("Dtype('bool').build(3)", lambda b: b.Dtype('bool').build(3), None),
    ("Bits(uint=5, length=3, offset=1)", lambda b: b.Bits(uint=5, length=3, offset=1), None),
    ("Bits(bfloat=1.0, length=8)", lambda b: b.Bits(bfloat=1.0, length=8), None),
]


def h_mismatch(i):
    how, f, exp = MISMATCH[i]

    def h(K):
        import bitstring
        r = call(lambda: f(bitstring))
        if exp is None:
            return K.check(r.raised(ValueError), 'mis-sized or invalid value must raise CreationError (ValueError)', call=how, exc=r.excname,
                           got=(raw(r.value) if r.ok else None))
        return K.check(r.ok and same(raw(r.value), O.from01(exp)), 'conforming value must be accepted with exactly the requested bits', call=how, exc=r.excname)
    return h


def h_bad_digits(cname, t, k, with_prefix=False):
    """symbolic code points; valid iff every character is a digit of the base (with_prefix: the prefix letters may occur anywhere in the text, and
    the two-character prefix 0x / 0o / 0b - either case - may be repeated, as the test suite pins)"""
    def h(K):
        import bitstring
        cls = classes()[cname]
        text = K.chars('t', k, 33, 126)
        strip = {'hex': (120, 88), 'oct': (111, 79), 'bin': (98, 66)}[t]
        cps = [ord(text[j]) for j in range(k)]
        for c in cps:
            K.assume(c != 95)
            if not with_prefix:
                K.assume(c != strip[0] and c != strip[1])
        ndig = k
        if with_prefix:
            # the grammar pinned by the test suite ('0x3 0x7' and '0b1' * 20 are accepted once whitespace is gone): every occurrence of the
            # two-character prefix, scanned from the left, is dropped; what remains must be digits
            kept = []
            i = 0
            while i < k:
                if i + 1 < k and cps[i] == 48 and (cps[i + 1] == strip[0] or cps[i + 1] == strip[1]):
                    i += 2
                    continue
                kept.append(cps[i])
                i += 1
            cps = kept
            ndig = len(kept)
        valid = True
        for c in cps:
            if t == 'hex':
                d = (48 <= c and c <= 57) or (97 <= c and c <= 102) or (65 <= c and c <= 70)
            elif t == 'oct':
                d = (48 <= c and c <= 55)
            else:
                d = (48 <= c and c <= 49)
            valid = valid and d
        w = V_TEXT_W[t]
        for rn, g in {'kw': lambda: cls(**{t: text}), 'Dtype.build': lambda: bitstring.Dtype(t).build(text), 'pack': lambda: bitstring.pack(t, text)}.items():
            r = call(g)
            if valid:
                if not (r.ok and len(r.value) == w * ndig):
                    return K.fail('valid digits rejected', route=rn, exc=r.excname)
            elif r.ok or not r.raised(ValueError):
                return K.fail('invalid digit must raise CreationError (ValueError)', route=rn, exc=r.excname, got=(raw(r.value) if r.ok else None))
        return True
    return h


V_TEXT_W = {'hex': 4, 'oct': 3, 'bin': 1}


def h_window(cname, src, k):
    """bytes= / bitarray= with offset and length: exact window or CreationError"""
    def h(K):
        import bitstring
        import bitarray
        cls = classes()[cname]
        total = 8 * k
        if src == 'bytes':
            b = K.bytes('b', k)
            data = O.empty()
            data.frombytes(b)
        elif src == 'filename':
            from kit import files as F
            fn, data = F.make_file(K, 'w15', k)
            b = None
        elif src == 'bytesio':
            import io
            content = bytes((0xa5, 0x3c, 0x0f, 0xf1)[:k])       # a BytesIO holds concrete bytes (C level); offsets and lengths are symbolic
            data = O.empty()
            data.frombytes(content)
            b = None
        else:
            data = K.bits('data', total)
            b = data.copy()
        off = K.opt_int('offset')
        ln = K.opt_int('length')
        if src == 'filename':
            r = call(lambda: cls(filename=fn, length=ln, offset=off))
            if not K.symbolic:
                F.cleanup()
        elif src == 'bytesio':
            r = call(lambda: cls(io.BytesIO(content), length=ln, offset=off))
        else:
            r = call(lambda: cls(**{src: b}, length=ln, offset=off))
        o = 0 if off is None else off
        valid = (o >= 0) and (o <= total)
        if ln is not None:
            valid = valid and (ln >= 0) and (o + ln <= total)
        if not valid:
            if r.ok:
                return K.fail('offset/length beyond the supplied data accepted', offset=off, length=ln, got=raw(r.value))
            return K.check(r.raised(ValueError), 'offset/length beyond the data must raise CreationError (ValueError)', exc=r.excname)
        if not r.ok:
            return K.fail('valid window rejected', exc=r.excname, offset=off, length=ln)
        oo = K.conc(o)
        ll = total - oo if ln is None else K.conc(ln)
        return K.check(same(raw(r.value), data[oo:oo + ll]), 'window content', got=raw(r.value), offset=oo, length=ll)
    return h


def h_array_reject(dtype, w, signed, how):
    """setting Array items with a value that does not fit raises and changes nothing (also when earlier items of the same call did fit)"""
    def h(K):
        import bitstring
        k = 4
        x = K.bits('data', w * k)
        a = bitstring.Array(dtype)
        a.data = mk(K, bitstring.BitArray, x)
        good = K.int('good', 0, 1)
        bad = K.int('bad')
        K.assume(not V.in_range(bad, w, signed))
        ops = {
            'setitem': lambda: a.__setitem__(1, bad),
            'slice-step1': lambda: a.__setitem__(slice(0, 2), [good, bad]),
            'slice-ext': lambda: a.__setitem__(slice(0, 4, 2), [good, bad]),
            'slice-ext-neg': lambda: a.__setitem__(slice(3, None, -2), [good, bad]),
            'slice-ext-count': lambda: a.__setitem__(slice(0, 4, 2), [good, good, good]),
            'extend': lambda: a.extend([good, bad]),
            'append': lambda: a.append(bad),
            'insert': lambda: a.insert(1, bad),
            'init': lambda: bitstring.Array(dtype, [good, bad]),
        }
        r = call(ops[how])
        return K.check(r.raised(ValueError) and same(raw(a.data), x), 'a value that does not fit must raise ValueError and leave the Array unchanged', how=how, exc=r.excname, got=raw(a.data), before=x)
    return h


def _install_file_fakes():
    from kit import files as F
    F.install_fakes()


def conditions(tier):
    q = tier == 'quick'
    conds = []
    T = 180 if q else 450

    def add(cid, fn, bounds, drives, **params):
        conds.append(Cond(cid, fn, bounds, drives, params, timeout=T))

    widths = [1, 2, 8, 9] if q else [1, 2, 3, 7, 8, 9, 16, 17, 31, 32, 33, 63, 64, 65, 128]
    bwidths = [8, 16] if q else [8, 16, 24, 32, 64, 72]
    for t, (signed, order, unit) in V.INT_TYPES.items():
        for n in (widths if unit == 1 else bwidths):
            for c in (['BitArray'] if q else ['Bits', 'BitArray', 'BitStream']):
                add(f'C15.int[{c},{t},n={n}]', h_int_total(c, t, n), f'every Python int value for {t}:{n}; 9 creation routes', V.D_INT, t=t, n=n)
            if n in (1, 8, 9, 16, 64):
                add(f'C15.prop-reject[BitArray,{t},n={n}]', h_prop_reject('BitArray', t, n), f'all {n}-bit targets x every Python int value', V.D_INT, t=t, n=n)
        if unit == 8:
            for n in ([12] if q else [1, 7, 12, 20]):
                add(f'C15.prop-reject[BitArray,{t},n={n}]', h_prop_reject('BitArray', t, n), f'all {n}-bit targets (not a whole number of bytes) x every Python int value', V.D_INT, t=t, n=n)
        add(f'C15.length[Bits,{t}]', h_length('Bits', t, -3, 20 if q else 70), f'lengths in [-3,{20 if q else 70}] (solver-enumerated) for {t}', V.D_INT, t=t)
    for t in ('float', 'floatle', 'floatne', 'floatbe'):
        if q and t not in ('float', 'floatle'):
            continue
        add(f'C15.float-length[Bits,{t}]', h_float_length('Bits', t), 'lengths in [-2,70] (solver-enumerated)', V.D_FLOAT, t=t)
    add('C15.fixed-length[Bits,bool]', h_fixed_length('Bits', 'bool', True, 1), 'lengths in [-2,20]', ['bitstring.bits:Bits._setbool', 'bitstring.dtypes:DtypeDefinition.get_dtype'])
    add('C15.fixed-length[Bits,bfloat]', h_fixed_length('Bits', 'bfloat', 1.0, 16), 'lengths in [-2,20]', ['bitstring.bits:Bits._setbfloatbe', 'bitstring.dtypes:DtypeDefinition.get_dtype'])
    for i, (how, _, _) in enumerate(MISMATCH):
        add(f'C15.mismatch[{how}]', h_mismatch(i), 'concrete call', ['bitstring.bitstore_helpers:bitstore_from_token', 'bitstring.methods:pack', 'bitstring.dtypes:Dtype.build', 'bitstring.bits:Bits._initialise'])
    for t in ('hex', 'oct', 'bin'):
        for k in ([1, 2] if q else [1, 2, 3]):
            add(f'C15.digits[Bits,{t},k={k}]', h_bad_digits('Bits', t, k), f'every string of {k} printable ASCII characters (prefix letters and underscore excluded)', V.D_TEXT, t=t, k=k)
        for k in ([2] if q else [2, 3]):
            add(f'C15.digits-prefix[Bits,{t},k={k}]', h_bad_digits('Bits', t, k, True), f'every string of {k} printable ASCII characters (underscore excluded); prefixes may repeat', V.D_TEXT, t=t, k=k)
    for dtype, w, signed in ([('uint5', 5, False), ('int8', 8, True)] if q else [('uint5', 5, False), ('int8', 8, True), ('uint1', 1, False), ('int3', 3, True), ('uintle16', 16, False)]):
        for how in ('setitem', 'slice-step1', 'slice-ext', 'slice-ext-neg', 'slice-ext-count', 'extend', 'append', 'insert', 'init'):
            add(f'C15.array-reject[{dtype},{how}]', h_array_reject(dtype, w, signed, how), f'all data of 4 items x every out-of-range Python int (and an in-range value set before it in the same call)',
                ['bitstring.array_:Array.__setitem__', 'bitstring.array_:Array.extend', 'bitstring.array_:Array.append', 'bitstring.array_:Array.insert', 'bitstring.array_:Array._create_element'], dtype=dtype)
    for src in ('bytes', 'bitarray', 'bytesio', 'filename'):
        for k in (([0, 2] if src != 'bytesio' else [3]) if q else [0, 1, 2, 3]):
            for c in (['Bits'] if q else ['Bits', 'BitStream']):
                conds.append(Cond(f'C15.window[{c},{src},k={k}]', h_window(c, src, k), f'all {k}-byte sources x every Python int offset and length (or None)',
                                  ['bitstring.bits:Bits._setbytes_with_truncation', 'bitstring.bits:Bits._setbitarray', 'bitstring.bits:Bits._initialise', 'bitstring.bits:Bits._setfile'], {'k': k}, timeout=T,
                                  setup=(_install_file_fakes if src == 'filename' else None)))
    return conds
