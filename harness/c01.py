"""C01 - every bitstring behaves as the Python sequence of its bits."""
from __future__ import annotations

from kit.engine import Cond
from kit import oracle as O
from kit.state import mk, raw, call, classes, is_stream, same
from harness.common import CLS, _obj, _unchanged, _operand, _operand_unchanged, _tokbits

ASSUMPTIONS = [
    "lengths are enumerated per condition (never symbolic); kilobit / word boundary behaviour inside the C extension is trusted",
    "auto-promotable operands: token strings are concrete catalogue entries; bytes are symbolic; bool lists have symbolic elements",
]

D_GET = ['bitstring.bits:Bits.__getitem__', 'bitstring.bitstream:ConstBitStream.__getitem__', 'bitstring.bitstore:BitStore.getindex_msb0',
         'bitstring.bitstore:BitStore.getslice_withstep_msb0', 'bitstring.bits:Bits.__len__', 'bitstring.bits:Bits.__iter__',
         'bitstring.bits:Bits.__bool__', 'bitstring.bitstore:BitStore.__iter__', 'bitstring.bitstore:BitStore.__len__']
D_ADD = ['bitstring.bits:Bits.__add__', 'bitstring.bits:Bits.__radd__', 'bitstring.bits:Bits._addleft', 'bitstring.bits:Bits._addright',
         'bitstring.bits:Bits._create_from_bitstype', 'bitstring.bits:Bits._setauto_no_length_or_offset', 'bitstring.bits:Bits._copy',
         'bitstring.bitstream:ConstBitStream.__add__', 'bitstring.bitstore:BitStore.__add__', 'bitstring.bitstore:BitStore.__iadd__']
D_MUL = ['bitstring.bits:Bits.__mul__', 'bitstring.bits:Bits.__rmul__', 'bitstring.bits:Bits._imul']

def h_basic(cname, n):
    def h(K):
        cls, x, pos, s = _obj(K, cname, n)
        if len(s) != n:
            return K.fail('len', got=len(s))
        if bool(s) != (n != 0):
            return K.fail('truth value')
        it = call(lambda: list(iter(s)))
        if not it.ok:
            return K.fail('iteration raised', exc=it.excname)
        if len(it.value) != n:
            return K.fail('iteration length', got=len(it.value))
        for j in range(n):
            b = it.value[j]
            if type(b) is not bool and not K.symbolic:
                return K.fail('iteration item type', got=type(b).__name__)
            if not K.check(int(b) == x[j], 'iteration item value', j=j):
                return False
        return K.check(_unchanged(K, s, x, pos), 'operand changed by len/bool/iter')
    return h


def h_index(cname, n):
    def h(K):
        cls, x, pos, s = _obj(K, cname, n)
        i = K.int('i')
        r = call(lambda: s[i])
        inrange = (-n <= i) and (i < n)
        if not r.ok:
            if not r.raised(IndexError):
                return K.fail('single index raised the wrong exception', exc=r.excname)
            return K.check(not inrange, 'IndexError for an in-range index')
        if not inrange:
            return K.fail('out-of-range index did not raise IndexError', value=r.value)
        j = i + n if i < 0 else i
        return K.check(int(r.value) == x[j] and _unchanged(K, s, x, pos), 'single-bit index value')
    return h


def h_slice(cname, n, lim):
    def h(K):
        cls, x, pos, s = _obj(K, cname, n)
        a = K.opt_int('start', -lim, lim)
        b = K.opt_int('stop', -lim, lim)
        c = K.opt_int('step', -lim, lim)
        r = call(lambda: s[a:b:c])
        if c is not None and c == 0:
            return K.check(r.raised(ValueError), 'zero step must raise ValueError', exc=r.excname)
        if not r.ok:
            return K.fail('slice raised', exc=r.excname)
        t = r.value
        if type(t) is not cls:
            return K.fail('slice result class', got=type(t).__name__)
        if is_stream(cls) and t._pos != 0:
            return K.fail('slice result pos not 0', got=t._pos)
        exp = O.ref_slice(K, x, a, b, c)
        return K.check(same(raw(t), exp) and _unchanged(K, s, x, pos), 'slice content', got=raw(t), expected=exp)
    return h


def h_add(lname, rkind, n, m, reflected=False):
    """s + other (other of `rkind`); reflected: other + s with other a non-bitstring"""
    def h(K):
        cls, x, pos, s = _obj(K, lname, n)
        other, ybits, ocls = _operand(K, rkind, m)
        if K.symbolic and rkind == 'bools':
            other = [bool(b) for b in other]
        if reflected:
            if K.symbolic and rkind == 'bytes':
                # CrossHair's SymbolicBytes.__add__ raises instead of returning NotImplemented; Python's operator
                # dispatch (bytes.__add__ -> NotImplemented -> s.__radd__) is trusted and __radd__ is driven directly.
                r = call(lambda: s.__radd__(other))
            else:
                r = call(lambda: other + s)
            exp = O.ref_concat(ybits, x)
            want = cls if ocls is None else ocls
        else:
            r = call(lambda: s + other)
            exp = O.ref_concat(x, ybits)
            want = cls
        if not r.ok:
            return K.fail('concatenation raised', exc=r.excname)
        t = r.value
        K.note(result_class=type(t).__name__, expected_class=want.__name__)
        if type(t) is not want:
            return K.fail('class of the sum is not the class of the left bitstring operand', got=type(t).__name__, expected=want.__name__)
        if is_stream(want) and t._pos != 0:
            return K.fail('sum pos not 0', got=t._pos)
        ok = same(raw(t), exp) and _unchanged(K, s, x, pos)
        ok = ok and _operand_unchanged(K, other, ybits, ocls)
        return K.check(ok, 'concatenation content / operands unchanged', got=raw(t), expected=exp)
    return h


def h_mul(cname, n, kmax, reflected):
    def h(K):
        cls, x, pos, s = _obj(K, cname, n)
        k = K.int('k', -3, kmax)
        r = call((lambda: k * s) if reflected else (lambda: s * k))
        if k < 0:
            return K.check(r.raised(ValueError), 'negative repeat count must raise ValueError', exc=r.excname)
        if not r.ok:
            return K.fail('repetition raised', exc=r.excname)
        t = r.value
        if type(t) is not cls:
            return K.fail('class of the product', got=type(t).__name__)
        if is_stream(cls) and t._pos != 0:
            return K.fail('product pos not 0', got=t._pos)
        kk = K.conc(k)
        exp = O.ref_repeat(x, kk)
        return K.check(same(raw(t), exp) and _unchanged(K, s, x, pos), 'repetition content', got=raw(t), expected=exp)
    return h


def conditions(tier):
    q = tier == 'quick'
    conds = []
    lens_basic = [0, 1, 3, 8] if q else [0, 1, 2, 3, 7, 8, 9, 16, 17, 63, 64, 65]
    lens_slice = {'Bits': [0, 1, 2, 3, 5, 8], 'BitStream': [0, 1, 3, 8], 'BitArray': [3], 'ConstBitStream': [3]} if q else \
        {c: [0, 1, 2, 3, 4, 5, 6, 7, 8, 9, 12, 16] for c in CLS}
    for cn in CLS:
        for n in lens_basic:
            if n <= 17:
                conds.append(Cond(f'C01.basic[{cn},n={n}]', h_basic(cn, n), f'all 2^{n} contents, all stream positions; len, truth, iteration', D_GET, {'cls': cn, 'n': n}, timeout=120))
            conds.append(Cond(f'C01.index[{cn},n={n}]', h_index(cn, n), f'all 2^{n} contents, every Python int index (unbounded)', D_GET, {'cls': cn, 'n': n}, timeout=120))
        for n in lens_slice[cn]:
            lim = n + 2
            conds.append(Cond(f'C01.slice[{cn},n={n}]', h_slice(cn, n, lim),
                              f'all 2^{n} contents x start,stop,step each in [-{lim},{lim}] or None', D_GET, {'cls': cn, 'n': n}, timeout=300 if q else 900))
    # concatenation: length grid hits len(bs) <= len(self) both ways
    grid = [(0, 0), (0, 2), (2, 0), (1, 2), (2, 1), (3, 3), (2, 5)] if q else [(a, b) for a in range(0, 6) for b in range(0, 6)] + [(8, 9), (9, 8), (16, 17), (64, 65), (65, 64)]
    pairs = [(l, r) for l in CLS for r in CLS]
    for l, r in pairs:
        for (n, m) in grid:
            if q and (l, r) not in [('Bits', 'BitArray'), ('BitArray', 'Bits'), ('Bits', 'Bits'), ('BitStream', 'ConstBitStream'), ('ConstBitStream', 'BitArray'), ('Bits', 'BitStream')] and (n, m) != (1, 2):
                continue
            conds.append(Cond(f'C01.add[{l}+{r},n={n},m={m}]', h_add(l, r, n, m), f'all contents of both operands ({n} and {m} bits), all stream positions',
                              D_ADD, {'left': l, 'right': r, 'n': n, 'm': m}, timeout=120))
    toks = ['0b1', '0x5', '0xa5, 0b1', '', 'uint:3=5'] if q else ['0b1', '0b011', '0x5', '0o3', '0xa5, 0b1', '', 'uint:3=5', 'int:4=-2', 'bool=True', '0b1, 0b0, 0b1']
    for cn in CLS:
        for n in ([0, 2, 6] if q else [0, 1, 2, 3, 5, 9, 12]):
            for tok in toks:
                for refl in (False, True):
                    conds.append(Cond(f"C01.add[{cn}{'<-' if refl else '+'}str:{tok!r},n={n}]", h_add(cn, 'str:' + tok, n, 0, refl),
                                      f'all {n}-bit contents; token string {tok!r} (concrete)', D_ADD, {'cls': cn, 'n': n, 'reflected': refl}, timeout=120))
            for m in ([8] if q else [0, 8, 16]):
                for refl in (False, True):
                    conds.append(Cond(f"C01.add[{cn}{'<-' if refl else '+'}bytes,n={n},m={m}]", h_add(cn, 'bytes', n, m, refl),
                                      f'all {n}-bit contents x all {m // 8}-byte values', D_ADD, {'cls': cn, 'n': n, 'reflected': refl}, timeout=120))
            for m in ([3] if q else [0, 1, 3]):
                for refl in (False, True):
                    conds.append(Cond(f"C01.add[{cn}{'<-' if refl else '+'}bools,n={n},m={m}]", h_add(cn, 'bools', n, m, refl),
                                      f'all {n}-bit contents x all bool lists of length {m}', D_ADD, {'cls': cn, 'n': n, 'reflected': refl}, timeout=120))
    for cn in CLS:
        for n in ([0, 1, 3] if q else [0, 1, 2, 3, 5, 8]):
            for refl in (False, True):
                kmax = 9 if q else 17
                conds.append(Cond(f"C01.mul[{cn},n={n},{'k*s' if refl else 's*k'}]", h_mul(cn, n, kmax, refl),
                                  f'all {n}-bit contents x repeat count in [-3,{kmax}]', D_MUL, {'cls': cn, 'n': n}, timeout=180))
    return conds
