"""C03 - in-place mutations equal their sequence-level specification; nothing else moves.

Single step from an arbitrary valid state (content symbolic, every stream position); sequences of
operations follow by induction on the state (bits[, pos]).
"""
from __future__ import annotations

from kit.engine import Cond
from kit import oracle as O
from kit.state import mk, raw, call, classes, is_stream, is_mutable, same, get_attr, set_attr
from harness.common import CLS, _obj, _unchanged, _operand, _operand_unchanged

ASSUMPTIONS = [
    "single-step claims from an arbitrary valid state; multi-step histories follow by induction on (bits, pos) provided stores are unshared (C04)",
    "where property text and reference docs are silent, behaviour pinned by an existing test is accepted (overwrite past the end extends the bitstring)",
    "integer assignment to a slice with step -1 and to an empty slice is checked only for the frame condition (raise => unchanged; else bits outside the slice unchanged)",
    "byteswap format strings come from a concrete catalogue; start/end/repeat are symbolic",
]

MUT = ['BitArray', 'BitStream']

D_APP = ['bitstring.bitarray_:BitArray.append', 'bitstring.bitarray_:BitArray.prepend', 'bitstring.bitarray_:BitArray._append_msb0',
         'bitstring.bitarray_:BitArray._append_lsb0', 'bitstring.bitarray_:BitArray.__iadd__', 'bitstring.bitstream:BitStream.__iadd__',
         'bitstring.bitstream:BitStream.prepend', 'bitstring.bitstream:ConstBitStream.append', 'bitstring.bits:Bits._addright', 'bitstring.bits:Bits._addleft']
D_INS = ['bitstring.bitarray_:BitArray.insert', 'bitstring.bitarray_:BitArray.overwrite', 'bitstring.bitstream:BitStream.insert',
         'bitstring.bitstream:ConstBitStream.overwrite', 'bitstring.bits:Bits._insert', 'bitstring.bits:Bits._overwrite', 'bitstring.bitstore:BitStore.setitem_msb0']
D_ITEM = ['bitstring.bitarray_:BitArray.__setitem__', 'bitstring.bitarray_:BitArray._setitem_int', 'bitstring.bitarray_:BitArray._setitem_slice',
          'bitstring.bitarray_:BitArray.__delitem__', 'bitstring.bitstream:BitStream.__setitem__', 'bitstring.bitstream:BitStream.__delitem__',
          'bitstring.bitstore:BitStore.setitem_msb0', 'bitstring.bitstore:BitStore.delitem_msb0', 'bitstring.bitarray_:BitArray.set']
D_REP = ['bitstring.bitarray_:BitArray.replace', 'bitstring.bitarray_:BitArray._replace', 'bitstring.bitstream:BitStream.replace',
         'bitstring.bits:Bits.findall', 'bitstring.bits:Bits._findall_msb0', 'bitstring.bitstore:BitStore.findall_msb0', 'bitstring.bits:Bits._validate_slice']
D_MISC = ['bitstring.bitarray_:BitArray.reverse', 'bitstring.bitarray_:BitArray.set', 'bitstring.bitarray_:BitArray.invert',
          'bitstring.bitarray_:BitArray.ror', 'bitstring.bitarray_:BitArray.rol', 'bitstring.bitarray_:BitArray._ror_msb0', 'bitstring.bitarray_:BitArray._rol_msb0',
          'bitstring.bitarray_:BitArray.byteswap', 'bitstring.bits:Bits._reversebytes', 'bitstring.bitarray_:BitArray.__imul__', 'bitstring.bits:Bits._imul',
          'bitstring.bitarray_:BitArray.clear', 'bitstring.bits:Bits._clear', 'bitstring.bitstream:ConstBitStream._clear', 'bitstring.bits:Bits._validate_slice',
          'bitstring.bits:Bits._invert', 'bitstring.bits:Bits._delete', 'bitstring.bits:Bits._insert', 'bitstring.bits:Bits._slice']


def _operand_or_self(K, s, x, rkind, m):
    if rkind == 'self':
        K.opos = None
        return s, x, None
    return _operand(K, rkind, m)


def _content(K, s, exp, what, **obs):
    return K.check(same(raw(s), exp), what, got=raw(s), expected=exp, **obs)


# ------------------------------------------------------------------ append / prepend / +=
def h_append(cname, rkind, n, m, op):
    def h(K):
        cls, x, pos, s = _obj(K, cname, n)
        other, y, ocls = _operand_or_self(K, s, x, rkind, m)
        if op == 'append':
            r = call(lambda: s.append(other))
            exp = O.ref_concat(x, y)
        elif op == 'prepend':
            r = call(lambda: s.prepend(other))
            exp = O.ref_concat(y, x)
        else:
            s0 = s

            def f():
                nonlocal s
                s += other
                return s is s0
            r = call(f)
            exp = O.ref_concat(x, y)
        if not r.ok:
            return K.fail(op + ' raised', exc=r.excname)
        if op == 'iadd':
            if r.value is not True:
                return K.fail('+= did not return self')
        elif r.value is not None:
            return K.fail(op + ' returned a value', got=r.value)
        ok = same(raw(s), exp)
        if rkind != 'self':
            ok = ok and _operand_unchanged(K, other, y, ocls)
        return K.check(ok, op + ' content', got=raw(s), expected=exp)
    return h


# ------------------------------------------------------------------ insert / overwrite
def h_insert(cname, rkind, n, m, op):
    def h(K):
        cls, x, pos, s = _obj(K, cname, n)
        other, y, ocls = _operand_or_self(K, s, x, rkind, m)
        m_ = len(y)
        p = K.int('p')
        r = call(lambda: get_attr(s, op)(other, p))
        if m_ == 0:
            return K.check(r.ok and r.value is None and _unchanged(K, s, x, pos), 'empty operand must be a no-op', exc=r.excname)
        q = p + n if p < 0 else p
        if q < 0 or q > n:
            return K.check(r.raised(ValueError) and _unchanged(K, s, x, pos), 'invalid position must raise ValueError and change nothing', exc=r.excname)
        if not r.ok:
            return K.fail(op + ' raised for a valid position', exc=r.excname, p=p)
        if r.value is not None:
            return K.fail(op + ' returned a value')
        qq = K.conc(q)
        if op == 'insert':
            exp = O.ref_concat(x[:qq], y, x[qq:])
        else:
            exp = O.ref_concat(x[:qq], y, x[qq + m_:])
        ok = same(raw(s), exp)
        if rkind != 'self':
            ok = ok and _operand_unchanged(K, other, y, ocls)
        return K.check(ok, op + ' content', got=raw(s), expected=exp)
    return h


# ------------------------------------------------------------------ item access
def h_setitem_int(cname, n, vkind, m):
    def h(K):
        cls, x, pos, s = _obj(K, cname, n)
        i = K.int('i')
        inrange = (-n <= i) and (i < n)
        if vkind == 'int':
            v = K.int('v')

            def f():
                s[i] = v
            r = call(f)
            if v == 0 or v == 1 or v == -1:
                if not inrange:
                    return K.check(r.raised(IndexError) and _unchanged(K, s, x, pos), 'out-of-range index must raise IndexError', exc=r.excname)
                if not r.ok:
                    return K.fail('s[i] = 0/1 raised', exc=r.excname)
                j = K.conc(i + n if i < 0 else i)
                b = O.zeros(1) if v == 0 else O.ones(1)
                return _content(K, s, O.ref_concat(x[:j], b, x[j + 1:]), 'single-bit assignment')
            # any other integer is an invalid value
            return K.check((not r.ok) and isinstance(r.exc, (ValueError, IndexError)) and _unchanged(K, s, x, pos),
                           'invalid integer value must raise and change nothing', exc=r.excname)
        other, y, ocls = _operand(K, vkind, m)

        def g():
            s[i] = other
        r = call(g)
        if not inrange:
            return K.check(r.raised(IndexError) and _unchanged(K, s, x, pos), 'out-of-range index must raise IndexError', exc=r.excname)
        if not r.ok:
            return K.fail('s[i] = bitstring raised', exc=r.excname)
        j = K.conc(i + n if i < 0 else i)
        return _content(K, s, O.ref_concat(x[:j], y, x[j + 1:]), 'single-position assignment of a bitstring') and \
            K.check(_operand_unchanged(K, other, y, ocls), 'operand changed')
    return h


def h_delitem_int(cname, n):
    def h(K):
        cls, x, pos, s = _obj(K, cname, n)
        i = K.int('i')

        def f():
            del s[i]
        r = call(f)
        if not ((-n <= i) and (i < n)):
            return K.check(r.raised(IndexError) and _unchanged(K, s, x, pos), 'out-of-range index must raise IndexError', exc=r.excname)
        if not r.ok:
            return K.fail('del s[i] raised', exc=r.excname)
        j = K.conc(i + n if i < 0 else i)
        return _content(K, s, O.ref_concat(x[:j], x[j + 1:]), 'del s[i]')
    return h


def _slice_args(K, lim, sc=None):
    """sc splits a condition by step class: None = any step, 'none' = omitted, 'pos' = [0, lim], 'neg' = [-lim, -1]"""
    a, b = K.opt_int('start', -lim, lim), K.opt_int('stop', -lim, lim)
    if sc is None:
        c = K.opt_int('step', -lim, lim)
    elif sc == 'none':
        c = None
    elif sc == 'pos':
        c = K.int('step', 0, lim)
    else:
        c = K.int('step', -lim, -1)
    return a, b, c


SC = ['none', 'pos', 'neg']


def _ref_del_slice(K, x, a, b, c):
    n = len(x)
    s0, st, cnt = O.slice_plan(n, a, b, c)
    cnt = K.conc(cnt)
    s0, st = K.conc(s0), K.conc(st)
    drop = set(s0 + j * st for j in range(cnt))
    return O.ref_concat(*[x[i:i + 1] for i in range(n) if i not in drop])


def h_delslice(cname, n, lim, sc=None):
    def h(K):
        cls, x, pos, s = _obj(K, cname, n)
        a, b, c = _slice_args(K, lim, sc)

        def f():
            del s[a:b:c]
        r = call(f)
        if c is not None and c == 0:
            return K.check(r.raised(ValueError) and _unchanged(K, s, x, pos), 'zero step must raise ValueError', exc=r.excname)
        if not r.ok:
            return K.fail('del s[a:b:c] raised', exc=r.excname)
        return _content(K, s, _ref_del_slice(K, x, a, b, c), 'slice deletion')
    return h


def h_setslice_bits(cname, rkind, n, m, lim, sc=None):
    def h(K):
        cls, x, pos, s = _obj(K, cname, n)
        other, y, ocls = _operand_or_self(K, s, x, rkind, m)
        m_ = len(y)
        a, b, c = _slice_args(K, lim, sc)

        def f():
            s[a:b:c] = other
        r = call(f)
        if c is not None and c == 0:
            return K.check(r.raised(ValueError) and _unchanged(K, s, x, pos), 'zero step must raise ValueError', exc=r.excname)
        s0, st, cnt = O.slice_plan(n, a, b, c)
        if c is None or c == 1:
            if not r.ok:
                return K.fail('slice assignment raised', exc=r.excname)
            s0 = K.conc(s0)
            cnt = K.conc(cnt)
            exp = O.ref_concat(x[:s0], y, x[s0 + cnt:])
            return _content(K, s, exp, 'slice assignment (step 1) content')
        cnt = K.conc(cnt)
        if cnt != m_:
            return K.check(r.raised(ValueError) and _unchanged(K, s, x, pos), 'extended slice of a different size must raise ValueError and change nothing', exc=r.excname)
        if not r.ok:
            return K.fail('extended slice assignment raised', exc=r.excname)
        s0, st = K.conc(s0), K.conc(st)
        where = {s0 + j * st: j for j in range(cnt)}
        exp = O.ref_concat(*[(y[where[i]:where[i] + 1] if i in where else x[i:i + 1]) for i in range(n)])
        return _content(K, s, exp, 'extended slice assignment content')
    return h


def _enc(K, v, L):
    """L-bit encoding (unsigned if v >= 0 else two's complement) or None if it does not fit"""
    import bitarray.util as U
    if v >= 0:
        if v >= (1 << L):
            return None
        return U.int2ba(v, length=L, signed=False)
    if v < -(1 << (L - 1)):
        return None
    return U.int2ba(v, length=L, signed=True)


def h_setslice_int(cname, n, lim, sc=None):
    def h(K):
        cls, x, pos, s = _obj(K, cname, n)
        a, b, c = _slice_args(K, lim, sc)
        v = K.int('v')

        def f():
            s[a:b:c] = v
        r = call(f)
        if c is not None and c == 0:
            return K.check((not r.ok) and _unchanged(K, s, x, pos), 'zero step must raise and change nothing', exc=r.excname)
        s0, st, cnt = O.slice_plan(n, a, b, c)
        cnt = K.conc(cnt)
        if c is None or c == 1:
            if cnt == 0:
                # integer into an empty slice: neither documented nor pinned; only the frame condition is claimed
                return K.check(_unchanged(K, s, x, pos), 'assignment of an integer to an empty slice changed the content', exc=r.excname)
            e = _enc(K, v, cnt)
            if e is None:
                return K.check(r.raised(ValueError) and _unchanged(K, s, x, pos), 'integer that does not fit the slice must raise ValueError and change nothing', exc=r.excname)
            if not r.ok:
                return K.fail('integer slice assignment raised for a value that fits', exc=r.excname, slice_len=cnt)
            s0 = K.conc(s0)
            return _content(K, s, O.ref_concat(x[:s0], e, x[s0 + cnt:]), 'integer slice assignment content')
        if c == -1:
            # not specified: frame condition only
            if not r.ok:
                return K.check(_unchanged(K, s, x, pos), 'failed assignment changed the content', exc=r.excname)
            if len(s) != n:
                return K.fail('integer assignment to a step -1 slice changed the length')
            s0 = K.conc(s0)
            sel = set(s0 - j for j in range(cnt))
            ok = True
            for i in range(n):
                if i not in sel:
                    ok = ok and same(raw(s)[i:i + 1], x[i:i + 1])
            return K.check(ok, 'integer assignment to a step -1 slice changed bits outside the slice')
        # |step| > 1: only 0 and 1 are valid and set every selected bit
        if not (v == 0 or v == 1):
            return K.check(r.raised(ValueError) and _unchanged(K, s, x, pos), 'integer other than 0/1 with a step must raise ValueError', exc=r.excname)
        if not r.ok:
            return K.fail('s[a:b:c] = 0/1 raised', exc=r.excname)
        s0, st = K.conc(s0), K.conc(st)
        sel = set(s0 + j * st for j in range(cnt))
        bit = O.ones(1) if v == 1 else O.zeros(1)
        exp = O.ref_concat(*[(bit if i in sel else x[i:i + 1]) for i in range(n)])
        return _content(K, s, exp, 's[a:b:c] = 0/1 must set exactly the selected bits', selected=sorted(sel))
    return h


# ------------------------------------------------------------------ replace
def _ref_replace(K, x, old, new, s0, e0, count, aligned):
    """successive non-overlapping matches from the left wholly inside [s0,e0); returns (new content, replacements)"""
    n, m = len(x), len(old)
    parts = []
    p = s0
    last = 0
    done = 0
    while p + m <= e0 and (count is None or done < count):
        if (not aligned or p % 8 == 0) and O.occurs_at(x, old, p):
            parts.append(x[last:p])
            parts.append(new)
            p += m
            last = p
            done += 1
        else:
            p += 1
    parts.append(x[last:])
    return O.ref_concat(*parts), done


def h_replace(cname, n, m, k, lim, aligned_mode):
    def h(K):
        import bitstring
        cls, x, pos, s = _obj(K, cname, n)
        old = K.bits('old', m)
        new = K.bits('new', k)
        whole = isinstance(aligned_mode, tuple) and len(aligned_mode) == 3
        a = None if whole else K.opt_int('start', -lim, lim)
        b = K.opt_int('end', -lim, lim)
        cnt = K.opt_int('count', -1, 3)
        if aligned_mode == 'arg':
            ba = K.choice('bytealigned', [None, False, True])
            optba = K.bool('options.bytealigned')
        elif isinstance(aligned_mode, tuple):
            ba, optba = aligned_mode[0], aligned_mode[1]    # one fixed way of asking (third element: start omitted)
        else:
            ba, optba = None, False
        bitstring.options.bytealigned = optba
        aligned = optba if ba is None else ba
        kw = {}
        if ba is not None or K.bool('pass_bytealigned'):
            kw['bytealigned'] = ba
        r = call(lambda: s.replace(mk(K, bitstring.Bits, old), mk(K, bitstring.Bits, new), a, b, cnt, **kw))
        if cnt is not None and cnt == 0:
            return K.check(r.ok and r.value == 0 and _unchanged(K, s, x, pos), 'count=0 must replace nothing', exc=r.excname)
        if m == 0:
            return K.check(r.raised(ValueError) and _unchanged(K, s, x, pos), 'empty old must raise ValueError', exc=r.excname)
        s0, e0, valid = O.norm_range(n, a, b)
        if not valid:
            return K.check(r.raised(ValueError) and _unchanged(K, s, x, pos), 'invalid range must raise ValueError and change nothing', exc=r.excname)
        if cnt is not None and cnt < 0:
            # negative count: not specified - frame condition only when it raises
            if not r.ok:
                return K.check(_unchanged(K, s, x, pos), 'failed replace changed the content')
            return True
        if not r.ok:
            return K.fail('replace raised', exc=r.excname)
        s0, e0 = K.conc(s0), K.conc(e0)
        exp, done = _ref_replace(K, x, old, new, s0, e0, None if cnt is None else K.conc(cnt), aligned)
        if not K.check(r.value == done, 'replace returned the wrong number of replacements', got=r.value, expected=done):
            return False
        return _content(K, s, exp, 'replace content')
    return h


# ------------------------------------------------------------------ reverse / rotate / set / invert
def h_reverse(cname, n, lim):
    def h(K):
        cls, x, pos, s = _obj(K, cname, n)
        a = K.opt_int('start', -lim, lim)
        b = K.opt_int('end', -lim, lim)
        r = call(lambda: s.reverse(a, b))
        s0, e0, valid = O.norm_range(n, a, b)
        if not valid:
            return K.check(r.raised(ValueError) and _unchanged(K, s, x, pos), 'invalid range must raise ValueError and change nothing', exc=r.excname)
        if not r.ok:
            return K.fail('reverse raised', exc=r.excname)
        s0, e0 = K.conc(s0), K.conc(e0)
        exp = O.ref_concat(x[:s0], O.ref_reverse(x[s0:e0]), x[e0:])
        ok = same(raw(s), exp)
        if pos is not None:
            ok = ok and s._pos == pos
        return K.check(ok, 'reverse content / pos', got=raw(s), expected=exp)
    return h


def h_rotate(cname, n, lim, left):
    def h(K):
        import bitstring
        cls, x, pos, s = _obj(K, cname, n)
        bits = K.int('bits', -2, 3 * n + 2)
        a = K.opt_int('start', -lim, lim)
        b = K.opt_int('end', -lim, lim)
        r = call(lambda: (s.rol if left else s.ror)(bits, a, b))
        if n == 0:
            return K.check((not r.ok) and isinstance(r.exc, bitstring.Error) and _unchanged(K, s, x, pos), 'rotating an empty bitstring must raise Error', exc=r.excname)
        s0, e0, valid = O.norm_range(n, a, b)
        if bits < 0 or not valid:
            return K.check(r.raised(ValueError) and _unchanged(K, s, x, pos), 'negative amount / invalid range must raise ValueError and change nothing', exc=r.excname)
        if not r.ok:
            return K.fail('rotation raised for valid arguments', exc=r.excname, bits=bits, start=a, end=b)
        s0, e0 = K.conc(s0), K.conc(e0)
        w = e0 - s0
        if w == 0:
            exp = x
        else:
            kk = K.conc(bits % w)
            mid = x[s0:e0]
            if left:
                rot = O.ref_concat(mid[kk:], mid[:kk])
            else:
                rot = O.ref_concat(mid[w - kk:], mid[:w - kk])
            exp = O.ref_concat(x[:s0], rot, x[e0:])
        ok = same(raw(s), exp)
        if pos is not None:
            ok = ok and s._pos == pos
        return K.check(ok, 'rotation content / pos', got=raw(s), expected=exp)
    return h


def _apply_positions(K, x, n, plist, fn):
    """apply fn(bit)->bit at each position of plist in order until an invalid one; returns (content, hit_invalid)"""
    cur = x
    for p in plist:
        if not ((-n <= p) and (p < n)):
            return cur, True
        j = K.conc(p + n if p < 0 else p)
        cur = O.ref_concat(cur[:j], fn(cur[j:j + 1]), cur[j + 1:])
    return cur, False


def h_set(cname, n, pkind, invert):
    def h(K):
        cls, x, pos, s = _obj(K, cname, n)
        value = None if invert else K.bool('value')
        if invert:
            def fn(b):
                return ~b
        else:
            def fn(b):
                return O.ones(1) if value else O.zeros(1)
        if pkind == 'none':
            r = call(lambda: s.invert() if invert else s.set(value))
            if invert and n == 0:
                return K.check(_unchanged(K, s, x, pos), 'invert() on empty changed something')
            if not r.ok:
                return K.fail('set/invert of the whole bitstring raised (on an empty bitstring it is a no-op)', exc=r.excname)
            exp = (~x if n else x) if invert else (O.ones(n) if value else O.zeros(n))
            return _content(K, s, exp, 'whole-bitstring set/invert')
        if pkind == 'int':
            p = K.int('p')
            plist = [p]
            arg = p
        elif pkind == 'list2':
            plist = [K.int('p0'), K.int('p1')]
            arg = list(plist)
        elif pkind == 'tuple1':
            plist = [K.int('p0')]
            arg = tuple(plist)
        elif pkind == 'gen2':       # a one-shot iterable
            plist = [K.int('p0'), K.int('p1')]
            arg = (p_ for p_ in list(plist))
        elif pkind == 'iter1':
            plist = [K.int('p0')]
            arg = iter(list(plist))
        else:  # range
            a = K.int('r_start', -n - 2, n + 2)
            b = K.int('r_stop', -n - 2, n + 2)
            c = K.int('r_step', -3, 3)
            K.assume(c != 0)
            a, b, c = K.conc(a), K.conc(b), K.conc(c)
            arg = range(a, b, c)
            plist = list(arg)
        r = call(lambda: s.invert(arg) if invert else s.set(value, arg))
        exp, bad = _apply_positions(K, x, n, plist, fn)
        if bad:
            if pkind == 'range':
                # a range may be applied position by position (prefix applied) or validated up front (nothing applied)
                return K.check(r.raised(IndexError) and (same(raw(s), exp) or same(raw(s), x)), 'range containing an invalid position must raise IndexError',
                               exc=r.excname, got=raw(s), positions=plist)
            # "may already have applied the valid positions that preceded the bad one": prefix applied, or nothing applied
            return K.check(r.raised(IndexError) and (same(raw(s), exp) or same(raw(s), x)), 'invalid position must raise IndexError; at most the preceding valid positions applied',
                           exc=r.excname, got=raw(s), expected=exp)
        if not r.ok:
            return K.fail('set/invert raised for valid positions', exc=r.excname)
        return _content(K, s, exp, 'set/invert at positions', positions=plist)
    return h


# ------------------------------------------------------------------ byteswap
BYTESWAP_FMTS = {
    'none': (None, None), 'zero': (0, None), 'one': (1, [1]), 'two': (2, [2]), 'three': (3, [3]),
    'h': ('h', [2]), '>HB': ('>HB', [2, 1]), '2h': ('2h', [2, 2]), 'list12': ([1, 2], [1, 2]), 'tuple2': ((2,), [2]),
    'q': ('q', [8]), 'bB': ('bB', [1, 1]), 'empty-list': ([], []),
    'l': ('l', [4]), '<L': ('<L', [4]), '2l': ('2l', [4, 4]), '@lB': ('@lB', [4, 1]), 'empty-tuple': ((), []),
    'iter12': (lambda: iter([1, 2]), [1, 2]), 'gen2': (lambda: (k for k in (2,)), [2]),     # one-shot iterables (made afresh on every path)
}


def _ref_byteswap(K, x, s0, e0, sizes, repeat):
    """returns (content, repeats)"""
    if sizes is None:
        sizes = [(e0 - s0) // 8]
    total = 8 * sum(sizes)
    if total == 0:
        return x, 0
    cur = x
    p = s0
    reps = 0
    while p + total <= e0:
        q = p
        for sz in sizes:
            grp = cur[q:q + 8 * sz]
            rev = O.ref_concat(*[grp[8 * (sz - 1 - t):8 * (sz - t)] for t in range(sz)])
            cur = O.ref_concat(cur[:q], rev, cur[q + 8 * sz:])
            q += 8 * sz
        reps += 1
        p += total
        if not repeat:
            break
    return cur, reps


def h_byteswap(cname, n, fmtkey, lim, aligned_window=False):
    fmt0, sizes = BYTESWAP_FMTS[fmtkey]

    def h(K):
        fmt = fmt0() if callable(fmt0) else fmt0
        cls, x, pos, s = _obj(K, cname, n)
        a = K.opt_int('start', -lim, lim)
        b = K.opt_int('end', -lim, lim)
        if aligned_window:
            K.assume((a is None or a % 8 == 0) and (b is None or b % 8 == 0))
        rep = K.bool('repeat')
        r = call(lambda: s.byteswap(fmt, a, b, rep))
        s0, e0, valid = O.norm_range(n, a, b)
        if not valid:
            return K.check(r.raised(ValueError) and _unchanged(K, s, x, pos), 'invalid range must raise ValueError and change nothing', exc=r.excname)
        if not r.ok:
            return K.fail('byteswap raised', exc=r.excname)
        s0, e0 = K.conc(s0), K.conc(e0)
        exp, reps = _ref_byteswap(K, x, s0, e0, sizes, rep)
        if len(s) != n:
            return K.fail('byteswap changed the length', got=len(s))
        if not K.check(same(raw(s), exp), 'byteswap content (bits outside [start,end) and beyond the last whole pattern must not move)', got=raw(s), expected=exp, start=s0, end=e0):
            return False
        return K.check(r.value == reps, 'byteswap returned the wrong number of repeats', got=r.value, expected=reps)
    return h


def h_byteswap_bad(cname, n):
    def h(K):
        cls, x, pos, s = _obj(K, cname, n)
        v = K.int('fmt', -5, -1)
        r = call(lambda: s.byteswap(v))
        if not K.check(r.raised(ValueError) and _unchanged(K, s, x, pos), 'negative byte size must raise ValueError', exc=r.excname):
            return False
        r = call(lambda: s.byteswap('z'))
        if not K.check(r.raised(ValueError) and _unchanged(K, s, x, pos), 'unparsable format must raise ValueError', exc=r.excname):
            return False
        r = call(lambda: s.byteswap(''))
        if not K.check(r.raised(ValueError) and _unchanged(K, s, x, pos), 'an empty format string must raise ValueError (it is not the default)', exc=r.excname):
            return False
        for empty in ([], (), b''):
            r = call(lambda: s.byteswap(empty))
            if not K.check(r.ok and r.value == 0 and _unchanged(K, s, x, pos), 'an empty iterable of sizes swaps nothing and returns 0', exc=r.excname, fmt=repr(empty)):
                return False
        r = call(lambda: s.byteswap([1, -1]))
        return K.check(r.raised(ValueError) and _unchanged(K, s, x, pos), 'negative size in iterable must raise ValueError', exc=r.excname)
    return h


# ------------------------------------------------------------------ *= / clear
def h_imul(cname, n, kmax):
    def h(K):
        cls, x, pos, s = _obj(K, cname, n)
        k = K.int('k', -3, kmax)
        s0 = s

        def f():
            nonlocal s
            s *= k
            return s is s0
        r = call(f)
        if k < 0:
            return K.check(r.raised(ValueError) and _unchanged(K, s0, x, pos), 'negative repeat count must raise ValueError and change nothing', exc=r.excname)
        if not r.ok:
            return K.fail('*= raised', exc=r.excname)
        if r.value is not True:
            return K.fail('*= did not return self')
        return _content(K, s, O.ref_repeat(x, K.conc(k)), '*= content')
    return h


def h_imul_float(cname, n):
    """a multiplier that is not an integer is an invalid value: raise, content as it was"""
    def h(K):
        cls, x, pos, s = _obj(K, cname, n)
        k = K.choice('k', [2.5, 4.5, 1.5, 0.5, 8.0, float('nan')])
        r = call(lambda: s.__imul__(k))
        return K.check((not r.ok) and _unchanged(K, s, x, pos), '*= with a non-integer count must raise and leave the content as it was', exc=r.excname, got=raw(s), k=k)
    return h


def h_clear(cname, n):
    def h(K):
        cls, x, pos, s = _obj(K, cname, n)
        r = call(lambda: s.clear())
        return K.check(r.ok and r.value is None and len(s) == 0 and len(raw(s)) == 0, 'clear', exc=r.excname)
    return h


# ------------------------------------------------------------------ position-free mutators, both bit-numbering modes
def h_posfree(cname, n, op, lsb0):
    """<<=, >>=, &=, |=, ^=, *=, invert(), set(v), clear() do not take positions: the same sequence-level result in msb0 and lsb0 mode"""
    def h(K):
        import bitstring
        cls, x, pos, s = _obj(K, cname, n)
        y = K.bits('y', n)
        k = K.int('k', -1, n + 1)
        v = K.bool('v')
        other = mk(K, bitstring.Bits, y)
        fns = {'ilshift': lambda: s.__ilshift__(k), 'irshift': lambda: s.__irshift__(k), 'iand': lambda: s.__iand__(other), 'ior': lambda: s.__ior__(other), 'ixor': lambda: s.__ixor__(other),
               'imul': lambda: s.__imul__(k), 'invert-all': lambda: s.invert(), 'set-all': lambda: s.set(v), 'clear': lambda: s.clear()}
        bitstring.options.lsb0 = lsb0
        try:
            r = call(fns[op])
        finally:
            bitstring.options.lsb0 = False
        if op in ('ilshift', 'irshift'):
            if k < 0 or n == 0:
                return K.check(r.raised(ValueError) and _unchanged(K, s, x, pos), 'negative shift / empty bitstring must raise ValueError and change nothing', exc=r.excname)
            kk = K.conc(k if k < n else n)
            exp = O.ref_concat(x[kk:], O.zeros(kk)) if op == 'ilshift' else O.ref_concat(O.zeros(kk), x[:n - kk])
        elif op in ('iand', 'ior', 'ixor'):
            if n == 0:
                return K.check((not r.ok) or same(raw(s), x), 'bit-wise in-place operator on empty bitstrings')
            exp = (x & y) if op == 'iand' else (x | y) if op == 'ior' else (x ^ y)
        elif op == 'imul':
            if k < 0:
                return K.check(r.raised(ValueError) and _unchanged(K, s, x, pos), 'negative repeat count must raise ValueError and change nothing', exc=r.excname)
            exp = O.ref_repeat(x, K.conc(k))
        elif op == 'invert-all':
            exp = ~x if n else x
        elif op == 'set-all':
            exp = O.ones(n) if v else O.zeros(n)
        else:
            exp = O.empty()
        if not r.ok:
            return K.fail(op + ' raised', exc=r.excname, lsb0=lsb0)
        if op in ('ilshift', 'irshift', 'iand', 'ior', 'ixor', 'imul') and r.value is not s:
            return K.fail(op + ' did not return self')
        return _content(K, s, exp, op + (' (lsb0 mode)' if lsb0 else '') + ' content', lsb0=lsb0)
    return h


def conditions(tier):
    q = tier == 'quick'
    conds = []
    T = 180 if q else 450
    # BitStream overrides only these mutators; in the quick tier the inherited ones are run on BitArray only
    STREAM_OVERRIDES = {'append', 'prepend', 'iadd', 'insert', 'overwrite', 'setitem-int', 'setitem-bits', 'delitem-int', 'delslice',
                        'setslice-int', 'setslice-bits', 'replace', 'clear'}

    def add(cid, fn, bounds, drives, **params):
        kind = cid.split('[')[0].split('.')[1]
        cls = params.get('cls')
        if q and cls == 'BitStream' and kind not in STREAM_OVERRIDES:
            return
        conds.append(Cond(cid, fn, bounds, drives, params, timeout=T))

    grid = [(0, 0), (0, 2), (3, 0), (3, 2), (5, 3)] if q else [(a, b) for a in (0, 1, 3, 6, 9) for b in (0, 1, 2, 4, 8)]
    for c in MUT:
        for op in ('append', 'prepend', 'iadd'):
            for rk in (['Bits', 'self'] if q else CLS + ['self']):
                for (n, m) in grid:
                    if rk == 'self' and m != 0:
                        continue
                    add(f'C03.{op}[{c},{rk},n={n},m={m}]', h_append(c, rk, n, m, op), f'all contents ({n}-bit object, {m}-bit operand), all stream positions', D_APP, n=n, m=m, cls=c)
            add(f'C03.{op}[{c},bytes,n=3]', h_append(c, 'bytes', 3, 8, op), 'all 3-bit contents x all 1-byte operands', D_APP, n=3, cls=c)
            add(f'C03.{op}[{c},str,n=3]', h_append(c, 'str:0xa5, 0b1', 3, 9, op), "all 3-bit contents; operand '0xa5, 0b1'", D_APP, n=3, cls=c)
        for op in ('insert', 'overwrite'):
            for rk in (['Bits', 'self'] if q else ['Bits', 'BitStream', 'self']):
                for (n, m) in ([(0, 2), (3, 0), (3, 2), (6, 3)] if q else [(a, b) for a in (0, 1, 3, 6, 9, 12) for b in (0, 1, 2, 4)]):
                    if rk == 'self' and (m != 0 and (n, m) != (3, 2)):
                        continue
                    add(f'C03.{op}[{c},{rk},n={n},m={m}]', h_insert(c, rk, n, m, op), f'all contents ({n}+{m} bits) x every Python int position', D_INS, n=n, m=m, cls=c)
        for n in ([0, 1, 3, 6] if q else [0, 1, 2, 3, 6, 9, 12]):
            add(f'C03.setitem-int[{c},n={n}]', h_setitem_int(c, n, 'int', 0), f'all {n}-bit contents x every int index x every int value', D_ITEM, n=n, cls=c)
            add(f'C03.delitem-int[{c},n={n}]', h_delitem_int(c, n), f'all {n}-bit contents x every int index', D_ITEM, n=n, cls=c)
            for m in ([0, 2] if q else [0, 1, 2, 3]):
                add(f'C03.setitem-bits[{c},n={n},m={m}]', h_setitem_int(c, n, 'Bits', m), f'all contents ({n}+{m} bits) x every int index', D_ITEM, n=n, m=m, cls=c)
        for n in ([0, 3] if q else [0, 1, 2, 3, 4, 5, 6]):
            lim = n + 2
            if q and c == 'BitStream' and n == 3:
                lim = n + 1
            for sc in SC:
                add(f'C03.delslice[{c},n={n},step={sc}]', h_delslice(c, n, lim, sc), f'all {n}-bit contents x start,stop in [-{lim},{lim}] or None x step {sc} (|step|<={lim})', D_ITEM, n=n, cls=c)
                add(f'C03.setslice-int[{c},n={n},step={sc}]', h_setslice_int(c, n, lim, sc), f'all {n}-bit contents x start,stop in [-{lim},{lim}] or None x step {sc} (|step|<={lim}) x every int value', D_ITEM, n=n, cls=c)
            for m in ([0, 2] if q else [0, 1, 2, 3]):
                add(f'C03.setslice-bits[{c},Bits,n={n},m={m}]', h_setslice_bits(c, 'Bits', n, m, lim),
                    f'all contents ({n}+{m} bits) x start,stop,step in [-{lim},{lim}] or None', D_ITEM, n=n, m=m, cls=c)
            if n in (3, 4):
                add(f'C03.setslice-bits[{c},self,n={n}]', h_setslice_bits(c, 'self', n, n, lim), f'all {n}-bit contents, value is the object itself', D_ITEM, n=n, cls=c)
        for (n, m, k) in ([(3, 1, 2), (4, 2, 1), (3, 0, 1)] if q else [(4, 1, 2), (5, 2, 1), (4, 1, 0), (3, 0, 1), (6, 2, 3), (7, 1, 1), (8, 3, 2)]):
            if q and c == 'BitStream' and (n, m) == (3, 1):
                continue
            add(f'C03.replace[{c},n={n},old={m},new={k}]', h_replace(c, n, m, k, n + 1, 'plain'),
                f'all contents ({n}-bit data, {m}-bit old, {k}-bit new) x start,end in [-{n + 1},{n + 1}] or None x count in [-1,3] or None', D_REP, n=n, m=m, k=k, cls=c)
        for (n, m, k) in ([] if q else [(9, 1, 2), (10, 2, 1), (16, 8, 3)]):
            add(f'C03.replace-aligned[{c},n={n},old={m},new={k}]', h_replace(c, n, m, k, n + 1, 'arg'),
                f'as above with bytealigned in {{None,False,True}} x options.bytealigned in {{False,True}}', D_REP, n=n, m=m, k=k, cls=c)
        for n in ([0, 1, 4] if q else [0, 1, 2, 4, 6, 9, 12]):
            lim = n + 2
            add(f'C03.reverse[{c},n={n}]', h_reverse(c, n, lim), f'all {n}-bit contents x start,end in [-{lim},{lim}] or None', D_MISC, n=n, cls=c)
            for left in (True, False):
                add(f"C03.{'rol' if left else 'ror'}[{c},n={n}]", h_rotate(c, n, lim, left),
                    f'all {n}-bit contents x bits in [-2,{3 * n + 2}] x start,end in [-{lim},{lim}] or None', D_MISC, n=n, cls=c)
            for inv in (False, True):
                nm = 'invert' if inv else 'set'
                add(f'C03.{nm}-all[{c},n={n}]', h_set(c, n, 'none', inv), f'all {n}-bit contents', D_MISC, n=n, cls=c)
                add(f'C03.{nm}-int[{c},n={n}]', h_set(c, n, 'int', inv), f'all {n}-bit contents x every int position', D_MISC, n=n, cls=c)
                if n == 4 or not q:
                    add(f'C03.{nm}-list[{c},n={n}]', h_set(c, n, 'list2', inv), f'all {n}-bit contents x every pair of int positions (list)', D_MISC, n=n, cls=c)
                    add(f'C03.{nm}-tuple[{c},n={n}]', h_set(c, n, 'tuple1', inv), f'all {n}-bit contents x every int position (1-tuple)', D_MISC, n=n, cls=c)
                    add(f'C03.{nm}-generator[{c},n={n}]', h_set(c, n, 'gen2', inv), f'all {n}-bit contents x every pair of int positions (generator: one-shot iterable)', D_MISC, n=n, cls=c)
                    add(f'C03.{nm}-iterator[{c},n={n}]', h_set(c, n, 'iter1', inv), f'all {n}-bit contents x every int position (iterator)', D_MISC, n=n, cls=c)
                    add(f'C03.{nm}-range[{c},n={n}]', h_set(c, n, 'range', inv), f'all {n}-bit contents x range(a,b,c), a,b in [-{n + 2},{n + 2}], c in [-3,3]', D_MISC, n=n, cls=c)
            add(f'C03.imul[{c},n={n}]', h_imul(c, n, 5 if q else 9), f'all {n}-bit contents x count in [-3,{5 if q else 9}]', D_MISC, n=n, cls=c)
            if n in (1, 4):
                add(f'C03.imul-float[{c},n={n}]', h_imul_float(c, n), f'all {n}-bit contents x non-integer counts (2.5, 4.5, 1.5, 0.5, 8.0, nan)', D_MISC, n=n, cls=c)
            add(f'C03.clear[{c},n={n}]', h_clear(c, n), f'all {n}-bit contents', D_MISC, n=n, cls=c)
        for n in ([0, 5] if q else [0, 1, 5, 9, 17]):
            for op in ('ilshift', 'irshift', 'iand', 'ior', 'ixor', 'imul', 'invert-all', 'set-all', 'clear'):
                for lsb0 in (False, True):
                    if q and not lsb0 and op in ('imul', 'invert-all', 'set-all', 'clear'):
                        continue        # msb0: covered by the dedicated conditions above
                    conds.append(Cond(f"C03.{op}[{c},n={n},{'lsb0' if lsb0 else 'msb0'}]", h_posfree(c, n, op, lsb0), f'all {n}-bit contents x operand / count in [-1,{n + 1}]; options.lsb0={lsb0}', D_MISC,
                                      dict(n=n, cls=c), timeout=T))
        bs_lens = [0, 8, 17] if q else [0, 7, 8, 16, 17, 24, 33, 40]
        for n in bs_lens:
            for fk in (['none', 'one', 'two', '>HB', 'list12', 'empty-list'] if q else list(BYTESWAP_FMTS)):
                if fk == 'q' and n < 40:
                    continue
                if q and n == 17 and fk in ('none', '>HB'):
                    continue
                add(f'C03.byteswap[{c},n={n},fmt={fk}]', h_byteswap(c, n, fk, n + 1), f'all {n}-bit contents x start,end in [-{n + 1},{n + 1}] or None x repeat in {{False,True}}; fmt={fk if callable(BYTESWAP_FMTS[fk][0]) else repr(BYTESWAP_FMTS[fk][0])}', D_MISC, n=n, fmt=fk, cls=c)
        if q:
            for fk in ('l', '2l'):
                add(f'C03.byteswap[{c},n=72,fmt={fk},aligned-window]', h_byteswap(c, 72, fk, 73, True), f'all 72-bit contents x start,end multiples of 8 x repeat; fmt={fk!r} (standard size: 4 bytes)', D_MISC, n=72, cls=c)
            for fk in ('iter12', 'gen2'):
                add(f'C03.byteswap[{c},n=24,fmt={fk},aligned-window]', h_byteswap(c, 24, fk, 25, True), f'all 24-bit contents x start,end multiples of 8 in [-24,24] or None x repeat; fmt={fk} (one-shot iterable)', D_MISC, n=24, cls=c)
            add(f'C03.byteswap[{c},n=24,fmt=two,aligned-window]', h_byteswap(c, 24, 'two', 25, True), 'all 24-bit contents x start,end multiples of 8 in [-24,24] or None x repeat; fmt=2', D_MISC, n=24, cls=c)
        add(f'C03.byteswap-bad[{c}]', h_byteswap_bad(c, 16), 'all 16-bit contents; invalid formats', D_MISC, n=16, cls=c)
    return conds
