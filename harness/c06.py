"""C06 - stream reads consume exactly what they return; the position is always valid.

Single step from an arbitrary (content, pos) with 0 <= pos <= len; every condition re-establishes
0 <= pos' <= len, so all finite histories follow by induction.
"""
from __future__ import annotations

from kit.engine import Cond
from kit import oracle as O
from kit.state import mk, raw, call, classes, is_stream, is_mutable, same, get_attr, set_attr
from harness.common import CLS, _obj, _unchanged, _operand, _operand_unchanged

ASSUMPTIONS = [
    "single-step claims from an arbitrary valid (content, pos); histories follow by induction because each condition asserts 0 <= pos' <= len",
    "token strings are concrete catalogue entries; integer counts, lengths given by keyword, contents and positions are symbolic",
    "the value oracle of fixed-length tokens uses bitarray.util conversions of the expected slice (encodings themselves are C02's subject)",
]

STREAMS = ['ConstBitStream', 'BitStream']

D_READ = ['bitstring.bitstream:ConstBitStream.read', 'bitstring.bitstream:ConstBitStream.peek', 'bitstring.bitstream:ConstBitStream.readlist',
          'bitstring.bitstream:ConstBitStream.peeklist', 'bitstring.bits:Bits._readlist', 'bitstring.bits:Bits._read_dtype_list',
          'bitstring.bits:Bits._slice', 'bitstring.dtypes:Dtype.__new__', 'bitstring.dtypes:DtypeDefinition.__init__', 'bitstring.dtypes:DtypeDefinition.get_dtype',
          'bitstring.dtypes:Register.get_dtype', 'bitstring.utils:parse_name_length_token', 'bitstring.utils:preprocess_tokens']
D_POS = ['bitstring.bitstream:ConstBitStream._setbitpos', 'bitstring.bitstream:ConstBitStream._getbitpos', 'bitstring.bitstream:ConstBitStream._setbytepos',
         'bitstring.bitstream:ConstBitStream._getbytepos', 'bitstring.bitstream:ConstBitStream.bytealign']
D_FIND = ['bitstring.bitstream:ConstBitStream.find', 'bitstring.bitstream:ConstBitStream.rfind', 'bitstring.bitstream:ConstBitStream.readto',
          'bitstring.bits:Bits.find', 'bitstring.bits:Bits.rfind', 'bitstring.bits:Bits._find_msb0', 'bitstring.bits:Bits._rfind_msb0']
D_MUT = ['bitstring.bitstream:ConstBitStream.append', 'bitstring.bitstream:ConstBitStream.overwrite', 'bitstring.bitstream:BitStream.__iadd__',
         'bitstring.bitstream:BitStream.prepend', 'bitstring.bitstream:BitStream.__setitem__', 'bitstring.bitstream:BitStream.__delitem__',
         'bitstring.bitstream:BitStream.insert', 'bitstring.bitstream:BitStream.replace', 'bitstring.bitstream:ConstBitStream._clear',
         'bitstring.bitarray_:BitArray.__setattr__', 'bitstring.bitarray_:BitArray.clear']
D_NEW = ['bitstring.bitstream:ConstBitStream.__copy__', 'bitstring.bitstream:BitStream.__copy__', 'bitstring.bitstream:ConstBitStream.__getitem__',
         'bitstring.bitstream:ConstBitStream.__add__', 'bitstring.bits:Bits._copy', 'bitstring.bitarray_:BitArray.copy', 'bitstring.bits:Bits.copy']


def _valid_pos(K, s, n, what='position invalid after the operation'):
    return K.check((0 <= s._pos) and (s._pos <= len(s)), what, pos=s._pos, length=len(s))


# fixed-length token kinds: name -> (bits per unit, interpretation of a bitarray)
def _interp(name, bits):
    import bitarray.util as U
    if name in ('uint', 'uintbe'):
        return U.ba2int(bits)
    if name in ('int', 'intbe'):
        return U.ba2int(bits, signed=True)
    if name in ('uintle', 'intle'):
        nb = len(bits) // 8
        rev = O.ref_concat(*[bits[8 * (nb - 1 - t):8 * (nb - t)] for t in range(nb)])
        return U.ba2int(rev, signed=(name == 'intle'))
    if name == 'hex':
        return U.ba2hex(bits)
    if name == 'oct':
        return U.ba2base(8, bits)
    if name == 'bin':
        return bits.to01()
    if name == 'bool':
        return bits[0] == 1
    if name == 'bytes':
        return bits.tobytes()
    if name == 'pad':
        return None
    raise ValueError(name)


def _value_ok(K, name, got, bits, cls):
    if name == 'bits':
        return (type(got) is cls) and got._pos == 0 and same(raw(got), bits)
    exp = _interp(name, bits)
    if name == 'pad':
        return got is None
    if name == 'bool':
        return (got == exp)
    return got == exp


TOKENS = {  # catalogue entry -> (dtype name, bit length)
    'uint:5': ('uint', 5), 'int:5': ('int', 5), 'u3': ('uint', 3), 'i8': ('int', 8), 'hex:8': ('hex', 8), 'h4': ('hex', 4), 'bin:3': ('bin', 3), 'b1': ('bin', 1),
    'oct:6': ('oct', 6), 'bool': ('bool', 1), 'bits:5': ('bits', 5), 'bytes:1': ('bytes', 8), 'bytes2': ('bytes', 16), 'pad:3': ('pad', 3),
    'uintbe:8': ('uintbe', 8), 'intle:16': ('intle', 16), 'uintle16': ('uintle', 16), 'intbe:16': ('intbe', 16), 'uint:1': ('uint', 1), 'bits:0': ('bits', 0),
    'hex:0': ('hex', 0), 'uint:12': ('uint', 12), 'int:1': ('int', 1), 'bin:12': ('bin', 12), 'bits:12': ('bits', 12), 'bool:1': ('bool', 1),
}


def h_read_int(cname, n, peek):
    def h(K):
        import bitstring
        cls, x, pos, s = _obj(K, cname, n)
        k = K.int('k')
        r = call(lambda: (s.peek if peek else s.read)(k))
        if k < 0:
            return K.check(r.raised(ValueError) and _unchanged(K, s, x, pos), 'negative count must raise ValueError, pos unchanged', exc=r.excname)
        if k > n - pos:
            return K.check((not r.ok) and isinstance(r.exc, bitstring.ReadError) and _unchanged(K, s, x, pos), 'over-read must raise ReadError and leave pos unchanged', exc=r.excname, pos=s._pos)
        if not r.ok:
            return K.fail('read(int) raised', exc=r.excname)
        t = r.value
        if type(t) is not cls or t._pos != 0:
            return K.fail('read(int) must return a new stream of the same class at pos 0', got=type(t).__name__)
        kk, pp = K.conc(k), K.conc(pos)
        if not K.check(same(raw(t), x[pp:pp + kk]), 'bits returned are not the bits at the old position', got=raw(t)):
            return False
        exp_pos = pos if peek else pos + k
        return K.check(s._pos == exp_pos and same(raw(s), x), 'position after read/peek', got=s._pos, expected=exp_pos)
    return h


def h_read_token(cname, n, tok, peek, via_kw=False):
    name, L = TOKENS[tok]

    def h(K):
        import bitstring
        cls, x, pos, s = _obj(K, cname, n)
        r = call(lambda: (s.peek if peek else s.read)(tok))
        if L > n - pos:
            return K.check((not r.ok) and isinstance(r.exc, bitstring.ReadError) and _unchanged(K, s, x, pos),
                           'a read needing more bits than remain must raise ReadError and leave pos unchanged', exc=r.excname, pos=s._pos)
        if not r.ok:
            return K.fail('read(token) raised', exc=r.excname, token=tok)
        pp = K.conc(pos)
        if not K.check(_value_ok(K, name, r.value, x[pp:pp + L], cls), 'value read is not the interpretation of the bits at the old position', got=r.value, token=tok):
            return False
        exp_pos = pos if peek else pos + L
        return K.check(s._pos == exp_pos and same(raw(s), x), 'position after read/peek', got=s._pos, expected=exp_pos)
    return h


def h_read_stretchy(cname, n, name):
    """length-less token reads to the end"""
    unit = {'bytes': 8, 'hex': 4, 'oct': 3}.get(name, 1)

    def h(K):
        import bitstring
        cls, x, pos, s = _obj(K, cname, n)
        r = call(lambda: s.read(name))
        rem = K.conc(n - pos)
        pp = n - rem
        if name in ('uint', 'int') and rem == 0:
            return K.check((not r.ok) and _unchanged(K, s, x, pos), 'reading an integer from zero remaining bits must fail and leave pos unchanged', exc=r.excname)
        if rem % unit:
            return K.check(r.raised(ValueError) and _unchanged(K, s, x, pos), 'remaining length not a multiple of the unit must raise ValueError, pos unchanged', exc=r.excname)
        if not r.ok:
            return K.fail('read of a length-less token raised', exc=r.excname)
        return K.check(_value_ok(K, name, r.value, x[pp:], cls) and s._pos == n and same(raw(s), x), 'length-less read: value / pos == len', got=r.value, pos=s._pos)
    return h


def h_readlist(cname, n, fmt_kind, peek):
    """fmt_kind: list mixing tokens and symbolic integer counts"""
    def h(K):
        import bitstring
        cls, x, pos, s = _obj(K, cname, n)
        if fmt_kind == 'ints2':
            k1, k2 = K.int('k1', -2, n + 2), K.int('k2', -2, n + 2)
            fmt = [k1, k2]
            plan = [('bits', k1), ('bits', k2)]
        elif fmt_kind == 'tok+int':
            k1 = K.int('k1', -2, n + 2)
            fmt = ['uint:3', k1, 'bin:2']
            plan = [('uint', 3), ('bits', k1), ('bin', 2)]
        elif fmt_kind == 'str2':
            fmt = 'hex:4, bool, pad:2, int:3'
            plan = [('hex', 4), ('bool', 1), ('pad', 2), ('int', 3)]
        elif fmt_kind == 'kw':
            k1 = K.int('k1', -2, n + 2)
            fmt = 'uint:a, bits:2'
            plan = [('uint', k1), ('bits', 2)]
        elif fmt_kind == 'stretchy-mid':
            fmt = 'uint:2, bits, bin:3'
            plan = None
        else:
            raise ValueError(fmt_kind)
        kw = {'a': k1} if fmt_kind == 'kw' else {}
        r = call(lambda: (s.peeklist if peek else s.readlist)(fmt, **kw))
        if not _valid_pos(K, s, n):
            return False
        if fmt_kind == 'stretchy-mid':
            rem = K.conc(n - pos)
            if rem < 5:
                # not enough bits for the fixed tokens
                return K.check((not r.ok) and isinstance(r.exc, (bitstring.ReadError, ValueError)) and _unchanged(K, s, x, pos), 'too few bits must raise and leave pos unchanged', exc=r.excname)
            plan = [('uint', 2), ('bits', rem - 5), ('bin', 3)]
        total = 0
        bad = False
        zero_uint = False
        for nm, L in plan:
            if L < 0:
                bad = True
            if nm in ('uint', 'int') and not (L < 0) and L == 0:
                zero_uint = True
        if bad or zero_uint:
            return K.check((not r.ok) and isinstance(r.exc, (ValueError, bitstring.ReadError)) and _unchanged(K, s, x, pos),
                           'negative or zero-length item must raise and leave pos unchanged', exc=r.excname, pos=s._pos)
        for nm, L in plan:
            total = total + L
        if total > n - pos:
            return K.check((not r.ok) and isinstance(r.exc, bitstring.ReadError) and _unchanged(K, s, x, pos), 'over-read in readlist must raise ReadError and leave pos unchanged', exc=r.excname, pos=s._pos)
        if not r.ok:
            return K.fail('readlist raised', exc=r.excname)
        vals = r.value
        exp_n = sum(1 for nm, _ in plan if nm != 'pad')
        if len(vals) != exp_n:
            return K.fail('readlist returned the wrong number of items', got=len(vals), expected=exp_n)
        p = K.conc(pos)
        vi = 0
        for nm, L in plan:
            LL = K.conc(L)
            seg = x[p:p + LL]
            if nm != 'pad':
                if not K.check(_value_ok(K, nm, vals[vi], seg, cls), 'readlist item value', index=vi, got=vals[vi]):
                    return False
                vi += 1
            p += LL
        exp_pos = pos if peek else p
        return K.check(s._pos == exp_pos and same(raw(s), x), 'position after readlist/peeklist', got=s._pos, expected=exp_pos)
    return h


def h_readlist_golomb(cname, n, peek):
    """readlist / peeklist over self-delimiting tokens: each item is decoded by the reference decoder at the running position"""
    def h(K):
        import bitstring
        import bitarray.util as U
        from harness.c10 import REF_DEC
        cls, x, pos, s = _obj(K, cname, n)
        fmt = K.choice('fmt', ['uint:2, ue, se', 'ue, uie', 'sie, bits:1, ue', 'se'])
        r = call(lambda: (s.peeklist if peek else s.readlist)(fmt))
        if not _valid_pos(K, s, n):
            return False
        p = K.conc(pos)
        exp = []
        for tok in [t.strip() for t in fmt.split(',')]:
            if tok in REF_DEC:
                d = REF_DEC[tok](K, x, p)
                if d is None:
                    exp = None
                    break
                exp.append(d[0])
                p = d[1]
            else:
                L_ = int(tok.split(':')[1])
                if p + L_ > n:
                    exp = None
                    break
                seg = x[p:p + L_]
                exp.append(('bits', seg) if tok.startswith('bits') else U.ba2int(seg))
                p += L_
        if exp is None:
            return K.check((not r.ok) and isinstance(r.exc, bitstring.ReadError) and _unchanged(K, s, x, pos), 'truncated item in readlist must raise ReadError and leave pos unchanged',
                           exc=r.excname, got=r.value, pos=s._pos)
        if not r.ok:
            return K.fail('readlist raised', exc=r.excname, fmt=fmt)
        if len(r.value) != len(exp):
            return K.fail('wrong number of items')
        for g, e in zip(r.value, exp):
            ok = (same(raw(g), e[1]) if isinstance(e, tuple) else (g == e))
            if not K.check(ok, 'readlist item value', got=g):
                return False
        return K.check(s._pos == (pos if peek else p) and same(raw(s), x), 'position after readlist/peeklist over self-delimiting tokens', got=s._pos, expected=p)
    return h


def h_setpos(cname, n, which):
    def h(K):
        import bitstring
        cls, x, pos, s = _obj(K, cname, n)
        v = K.int('v')
        if which == 'pos':
            def f():
                s.pos = v
            r = call(f)
            valid = (0 <= v) and (v <= n)
            newp = v
        elif which == 'bitpos':
            def f():
                s.bitpos = v
            r = call(f)
            valid = (0 <= v) and (v <= n)
            newp = v
        else:
            def f():
                s.bytepos = v
            r = call(f)
            valid = (0 <= v) and (8 * v <= n)
            newp = 8 * v
        if not valid:
            return K.check(r.raised(ValueError) and _unchanged(K, s, x, pos), 'invalid position must raise ValueError and leave pos unchanged', exc=r.excname, pos=s._pos)
        return K.check(r.ok and s._pos == newp and same(raw(s), x) and s.pos == newp and s.bitpos == newp, 'position after assignment', got=s._pos)
    return h


def h_getbytepos(cname, n):
    def h(K):
        import bitstring
        cls, x, pos, s = _obj(K, cname, n)
        r = call(lambda: s.bytepos)
        if pos % 8 != 0:
            return K.check((not r.ok) and isinstance(r.exc, bitstring.ByteAlignError) and _unchanged(K, s, x, pos), 'bytepos when unaligned must raise ByteAlignError', exc=r.excname)
        return K.check(r.ok and r.value * 8 == pos and _unchanged(K, s, x, pos), 'bytepos value')
    return h


def h_bytealign(cname, n):
    def h(K):
        cls, x, pos, s = _obj(K, cname, n)
        r = call(lambda: s.bytealign())
        skip = (8 - pos % 8) % 8
        if pos + skip > n:
            return K.check(r.raised(ValueError) and _unchanged(K, s, x, pos), 'bytealign past the end must raise ValueError and leave pos unchanged', exc=r.excname, pos=s._pos)
        return K.check(r.ok and r.value == skip and s._pos == pos + skip and same(raw(s), x), 'bytealign', got=s._pos)
    return h


def _first_match(K, x, pat, s0, e0, aligned, reverse=False):
    m = len(pat)
    rng = range(e0 - m, s0 - 1, -1) if reverse else range(s0, e0 - m + 1)
    for p in rng:
        if aligned and p % 8:
            continue
        if O.occurs_at(x, pat, p):
            return p
    return None


def h_find(cname, n, m, rev):
    def h(K):
        import bitstring
        cls, x, pos, s = _obj(K, cname, n)
        pat = K.bits('pat', m)
        a = K.opt_int('start', -n - 1, n + 1)
        b = K.opt_int('end', -n - 1, n + 1)
        r = call(lambda: (s.rfind if rev else s.find)(mk(K, bitstring.Bits, pat), a, b))
        s0, e0, valid = O.norm_range(n, a, b)
        if m == 0 or not valid:
            return K.check(r.raised(ValueError) and _unchanged(K, s, x, pos), 'empty pattern / invalid range must raise ValueError, pos unchanged', exc=r.excname)
        if not r.ok:
            return K.fail('find raised', exc=r.excname)
        s0, e0 = K.conc(s0), K.conc(e0)
        p = _first_match(K, x, pat, s0, e0, False, rev)
        if p is None:
            return K.check(r.value == () and _unchanged(K, s, x, pos), 'unsuccessful find must return () and leave pos unchanged', got=r.value, pos=s._pos)
        return K.check(r.value == (p,) and s._pos == p and same(raw(s), x), 'successful find must return the match and move pos to it', got=r.value, pos=s._pos, expected=p)
    return h


def h_readto(cname, n, m):
    def h(K):
        import bitstring
        cls, x, pos, s = _obj(K, cname, n)
        pat = K.bits('pat', m)
        ba = K.choice('bytealigned', [None, False, True])
        r = call(lambda: s.readto(mk(K, bitstring.Bits, pat), ba))
        if m == 0:
            return K.check(r.raised(ValueError) and _unchanged(K, s, x, pos), 'empty pattern must raise ValueError', exc=r.excname)
        pp = K.conc(pos)
        p = _first_match(K, x, pat, pp, n, bool(ba))
        if p is None:
            return K.check((not r.ok) and isinstance(r.exc, bitstring.ReadError) and _unchanged(K, s, x, pos), 'pattern not found must raise ReadError and leave pos unchanged', exc=r.excname, pos=s._pos)
        if not r.ok:
            return K.fail('readto raised', exc=r.excname)
        t = r.value
        ok = (type(t) is cls) and t._pos == 0 and same(raw(t), x[pp:p + m]) and s._pos == p + m and same(raw(s), x)
        return K.check(ok, 'readto must return the bits from the old position up to and including the match and advance past it', got=raw(t), pos=s._pos)
    return h


# ------------------------------------------------------------------ position after mutators
def h_mut_pos(op, n, m):
    """BitStream mutators: documented position afterwards"""
    def h(K):
        import bitstring
        cls, x, pos, s = _obj(K, 'BitStream', n)
        y = K.bits('y', m)
        other = mk(K, bitstring.Bits, y)
        exp_pos = None
        if op == 'append':
            r = call(lambda: s.append(other))
            exp_pos = n + m
        elif op == 'iadd':
            def f():
                nonlocal s
                s += other
            r = call(f)
            exp_pos = n + m
        elif op == 'prepend':
            r = call(lambda: s.prepend(other))
            exp_pos = 0
        elif op == 'clear':
            r = call(lambda: s.clear())
            exp_pos = 0
        elif op in ('insert', 'overwrite'):
            p = K.opt_int('p')
            r = call(lambda: get_attr(s, op)(other, p))
            if m == 0:
                return K.check(r.ok and _unchanged(K, s, x, pos), 'empty operand: no-op, pos unchanged', exc=r.excname, pos=s._pos)
            q = pos if p is None else (p + n if p < 0 else p)
            if q < 0 or q > n:
                return K.check(r.raised(ValueError) and _unchanged(K, s, x, pos), 'invalid position must raise ValueError, pos unchanged', exc=r.excname)
            if not r.ok:
                return K.fail(op + ' raised', exc=r.excname)
            qq = K.conc(q)
            exp = O.ref_concat(x[:qq], y, x[qq:]) if op == 'insert' else O.ref_concat(x[:qq], y, x[qq + m:])
            return K.check(same(raw(s), exp) and s._pos == q + m, op + ': content and pos just after the written bits', pos=s._pos, expected=q + m) and _valid_pos(K, s, n)
        elif op == 'delslice':
            a, b = K.opt_int('start', -n - 1, n + 1), K.opt_int('stop', -n - 1, n + 1)

            def f():
                del s[a:b]
            r = call(f)
            if not r.ok:
                return K.fail('del raised', exc=r.excname)
            exp_pos = pos if len(s) == n else 0
        elif op == 'delitem':
            i = K.int('i')

            def f():
                del s[i]
            r = call(f)
            if not r.ok:
                return K.check(r.raised(IndexError) and _unchanged(K, s, x, pos), 'failed del must leave pos', exc=r.excname)
            exp_pos = 0
        elif op == 'setitem':
            # s[i] = bitstring of any length replaces the single bit i (a length change like any other)
            i = K.int('i')

            def f():
                s[i] = other
            r = call(f)
            if not r.ok:
                return K.check(r.raised(IndexError) and _unchanged(K, s, x, pos), 'failed item assignment must leave content and pos', exc=r.excname)
            exp_pos = pos if len(s) == n else 0
        elif op == 'setslice-step':
            a, b = K.opt_int('start', -n - 1, n + 1), K.opt_int('stop', -n - 1, n + 1)
            st = K.choice('step', [-1, 2, -2])

            def f():
                s[a:b:st] = other
            r = call(f)
            if not r.ok:
                return K.check(_unchanged(K, s, x, pos), 'failed extended-slice assignment must leave content and pos', exc=r.excname)
            exp_pos = pos if len(s) == n else 0
        elif op == 'imul':
            k = K.int('k', 0, 3)

            def f():
                nonlocal s
                s *= k
            r = call(f)
            if not r.ok:
                return K.fail('*= raised', exc=r.excname)
            if len(s) == n:
                return _valid_pos(K, s, n)
            return _valid_pos(K, s, n)
        elif op == 'setslice':
            a, b = K.opt_int('start', -n - 1, n + 1), K.opt_int('stop', -n - 1, n + 1)

            def f():
                s[a:b] = other
            r = call(f)
            if not r.ok:
                return K.fail('slice assignment raised', exc=r.excname)
            exp_pos = pos if len(s) == n else 0
        elif op == 'replace-str':
            # operands given as text in different bases (and as bytes): the lengths that matter are their lengths in bits
            old_t, new_t = K.choice('texts', [('0xf', '0b1'), ('0x3', '0b1100'), ('0b0000', '0x0'), ('0o7', '0b111'), ('0b11', '0x3'), (b'\xff', '0b1'), ('0xff', b'\x00')])
            r = call(lambda: s.replace(old_t, new_t))
            if not r.ok:
                return K.fail('replace raised', exc=r.excname)
            exp_pos = pos if len(s) == n else 0
        elif op == 'replace':
            old = K.bits('old', 1)
            r = call(lambda: s.replace(mk(K, bitstring.Bits, old), other))
            if not r.ok:
                return K.fail('replace raised', exc=r.excname)
            exp_pos = pos if len(s) == n else 0
        else:
            raise ValueError(op)
        if not r.ok:
            return K.fail(op + ' raised', exc=r.excname)
        return K.check(s._pos == exp_pos, op + ': position afterwards', got=s._pos, expected=exp_pos) and _valid_pos(K, s, n)
    return h


def h_self_operand(op, n):
    """the stream itself as the operand of a mutator (s.overwrite(s, p), s.insert(s, p), s.append(s), s += s, s.prepend(s)):
    the bits written are the content *before* the call, and the position rule is the one for any other operand"""
    def h(K):
        import bitstring
        cls, x, pos, s = _obj(K, 'BitStream', n)
        if op in ('insert', 'overwrite'):
            p = K.opt_int('p')
            r = call(lambda: get_attr(s, op)(s, p))
            if n == 0:
                return K.check(r.ok and _unchanged(K, s, x, pos), 'empty operand: no-op, pos unchanged', exc=r.excname, pos=s._pos)
            q = pos if p is None else (p + n if p < 0 else p)
            if q < 0 or q > n:
                return K.check(r.raised(ValueError) and _unchanged(K, s, x, pos), 'invalid position must raise ValueError, pos unchanged', exc=r.excname)
            if not r.ok:
                return K.fail(op + ' raised', exc=r.excname)
            qq = K.conc(q)
            exp = O.ref_concat(x[:qq], x, x[qq:]) if op == 'insert' else O.ref_concat(x[:qq], x)
            return K.check(same(raw(s), exp) and s._pos == q + n, op + ' with itself: content and pos just after the written bits', pos=s._pos, expected=q + n, length=len(s)) and _valid_pos(K, s, n)
        if op == 'append':
            r = call(lambda: s.append(s))
            exp_pos = 2 * n
        elif op == 'iadd':
            t = s

            def f():
                nonlocal t
                t += s
            r = call(f)
            exp_pos = 2 * n
        else:
            r = call(lambda: s.prepend(s))
            exp_pos = 0 if n else pos
        if not r.ok:
            return K.fail(op + ' raised', exc=r.excname)
        if n == 0:
            return _valid_pos(K, s, n)
        return K.check(same(raw(s), O.ref_concat(x, x)) and s._pos == exp_pos, op + ' with itself: content doubled, documented position', pos=s._pos, expected=exp_pos, length=len(s)) and _valid_pos(K, s, n)
    return h


def h_const_mut(op, n, m):
    """ConstBitStream.append / overwrite are documented for mutable streams; on any class the position must stay valid"""
    def h(K):
        import bitstring
        cls, x, pos, s = _obj(K, 'ConstBitStream', n)
        y = K.bits('y', m)
        other = mk(K, bitstring.Bits, y)
        if not hasattr(cls, op):
            return True   # the immutable stream class does not expose the mutator at all
        if op == 'append':
            r = call(lambda: s.append(other))
        else:
            p = K.opt_int('p')
            r = call(lambda: s.overwrite(other, p))
        if not r.ok and not isinstance(r.exc, (ValueError, TypeError, bitstring.Error, IndexError)):
            return K.fail('ConstBitStream.' + op + ' raised an internal error', exc=r.excname)
        if not _valid_pos(K, s, n):
            return False
        # an immutable stream must not change its content through any method it exposes
        return K.check(same(raw(s), x), 'a method of the immutable ConstBitStream changed its content', op=op)
    return h


def h_prop_assign(n, which):
    """assigning through an interpretation property on a positioned BitStream must leave a valid position"""
    def h(K):
        import bitstring
        cls, x, pos, s = _obj(K, 'BitStream', n)
        if which == 'uint4':
            v = K.int('v', 0, 15)

            def f():
                s.uint4 = v
        elif which == 'hex':
            def f():
                s.hex = 'a5'
        elif which == 'bin':
            def f():
                s.bin = '1'
        elif which == 'int':
            v = K.int('v', -2, 1)

            def f():
                s.int = v
        elif which == 'bytes':
            def f():
                s.bytes = b'\\x01'
        r = call(f)
        if not r.ok:
            if not isinstance(r.exc, (ValueError, TypeError, bitstring.Error)):
                return K.fail('property assignment raised an internal error', exc=r.excname)
            return K.check(_unchanged(K, s, x, pos), 'failed property assignment changed the object')
        return _valid_pos(K, s, n, 'property assignment left pos beyond the new length')
    return h


def h_new_objects(cname, n):
    def h(K):
        import copy
        cls, x, pos, s = _obj(K, cname, n)
        outs = {
            'copy()': call(lambda: s.copy()), 'copy.copy': call(lambda: copy.copy(s)), '[:]': call(lambda: s[:]), '[1:]': call(lambda: s[1:]),
            '+': call(lambda: s + s), '* 2': call(lambda: s * 2), 'cut': call(lambda: list(s.cut(2))), 'split': call(lambda: list(s.split('0b1'))),
            '_copy': call(lambda: s._copy()),
        }
        if n:
            outs['~'] = call(lambda: ~s)
            outs['<< 1'] = call(lambda: s << 1)
            outs['>> 1'] = call(lambda: s >> 1)
            outs['& self'] = call(lambda: s & s)
            outs['^ copy'] = call(lambda: s ^ s._copy())
        for what, r in outs.items():
            if not r.ok:
                return K.fail('operation raised', op=what, exc=r.excname)
            vals = r.value if isinstance(r.value, list) else [r.value]
            for t in vals:
                if t is s and not is_mutable(cls) and what in ('copy()', 'copy.copy'):
                    continue  # immutable streams may return themselves from copy(); then pos is the caller's own
                if t is s:
                    return K.fail('operation returned the operand itself', op=what)
                if not K.check(t._pos == 0, 'new stream object does not start at position 0', op=what, got=t._pos):
                    return False
        return K.check(_unchanged(K, s, x, pos), 'operand changed while creating new objects')
    return h


def h_pos_irrelevant(cname, n):
    """2-safety: non-stream results do not depend on pos"""
    def h(K):
        import bitstring
        cls = classes()[cname]
        x = K.bits('x', n)
        p1, p2 = K.int('p1', 0, n), K.int('p2', 0, n)
        a, b = mk(K, cls, x, p1), mk(K, cls, x, p2)
        ops = {
            'len': lambda s: len(s), 'bin': lambda s: s.bin, 'count': lambda s: s.count(1), 'tobytes': lambda s: s.tobytes(), 'all': lambda s: s.all(1),
            'any': lambda s: s.any(1), 'str': lambda s: str(s) if not K.symbolic else None, 'startswith': lambda s: s.startswith('0b1'),
            'endswith': lambda s: s.endswith('0b0'), 'unpack': lambda s: s.unpack('bin'), 'contains': lambda s: ('0b10' in s) if False else None,
            'slice': lambda s: raw(s[1:3]), 'invert': lambda s: raw(~s) if n else None, 'add': lambda s: raw(s + '0b1'), 'uint': lambda s: s.uint if n else None,
            'iter': lambda s: list(s), 'index': lambda s: s[0] if n else None, 'Bits.find': lambda s: bitstring.Bits.find(s._copy(), '0b1'),
        }
        for nm, f in ops.items():
            ra, rb = call(lambda: f(a)), call(lambda: f(b))
            if ra.ok != rb.ok:
                return K.fail('operation outcome depends on pos', op=nm)
            if not ra.ok:
                continue
            va, vb = ra.value, rb.value
            if isinstance(va, list):
                ok = len(va) == len(vb)
                for u, v in zip(va, vb):
                    ok = ok and (u == v)
            else:
                ok = (va == vb) if not hasattr(va, 'to01') else same(va, vb)
            if not K.check(ok, 'non-stream result depends on the stream position', op=nm):
                return False
        return K.check(a._pos == p1 and b._pos == p2, 'non-stream operation moved pos')
    return h


def conditions(tier):
    q = tier == 'quick'
    conds = []
    T = 180 if q else 450

    def add(cid, fn, bounds, drives, **params):
        conds.append(Cond(cid, fn, bounds, drives, params, timeout=T))

    lens = [0, 7, 12] if q else [0, 1, 7, 8, 9, 12, 16, 24]
    for c in STREAMS:
        for n in lens:
            for peek in (False, True):
                pk = 'peek' if peek else 'read'
                add(f'C06.{pk}-int[{c},n={n}]', h_read_int(c, n, peek), f'all {n}-bit contents x all positions x every Python int count', D_READ, n=n, cls=c)
        toks_q = ['uint:5', 'int:5', 'hex:8', 'bin:3', 'oct:6', 'bool', 'bits:5', 'bytes:1', 'pad:3', 'intle:16', 'bits:0', 'uint:12', 'bool:1']
        for tok in (toks_q if q else list(TOKENS)):
            for n in ([0, 12] if q else [0, 1, 8, 12, 17]):
                for peek in ((False,) if q and n == 0 else (False, True)):
                    pk = 'peek' if peek else 'read'
                    if q and c == 'BitStream' and peek:
                        continue
                    add(f'C06.{pk}[{c},{tok},n={n}]', h_read_token(c, n, tok, peek), f'all {n}-bit contents x all positions; token {tok!r}', D_READ, n=n, cls=c, tok=tok)
        for nm in ['bits', 'bin', 'hex', 'oct', 'bytes', 'uint', 'int']:
            for n in ([9] if q else [0, 9, 12, 16]):
                if q and c == 'BitStream':
                    continue
                add(f'C06.read-to-end[{c},{nm},n={n}]', h_read_stretchy(c, n, nm), f'all {n}-bit contents x all positions; length-less token {nm!r}', D_READ, n=n, cls=c)
        for fk in ['ints2', 'tok+int', 'str2', 'kw', 'stretchy-mid']:
            for n in ([10] if q else [0, 5, 10, 14]):
                for peek in ((False,) if q else (False, True)):
                    if q and c == 'BitStream' and fk not in ('ints2', 'kw'):
                        continue
                    add(f"C06.{'peeklist' if peek else 'readlist'}[{c},{fk},n={n}]", h_readlist(c, n, fk, peek),
                        f'all {n}-bit contents x all positions x symbolic counts in [-2,{n + 2}]; format kind {fk}', D_READ, n=n, cls=c)
        for n in ([7] if q else [0, 5, 7, 10]):
            for peek in (False, True):
                add(f"C06.{'peeklist' if peek else 'readlist'}-golomb[{c},n={n}]", h_readlist_golomb(c, n, peek),
                    f'all {n}-bit contents x all positions; 4 formats mixing ue/se/uie/sie with fixed tokens', D_READ, n=n, cls=c)
        for n in ([0, 9, 16] if q else [0, 1, 8, 9, 16, 17, 24]):
            for which in ('pos', 'bitpos', 'bytepos'):
                add(f'C06.set-{which}[{c},n={n}]', h_setpos(c, n, which), f'all {n}-bit contents x all positions x every Python int', D_POS, n=n, cls=c)
            add(f'C06.get-bytepos[{c},n={n}]', h_getbytepos(c, n), f'all {n}-bit contents x all positions', D_POS, n=n, cls=c)
            add(f'C06.bytealign[{c},n={n}]', h_bytealign(c, n), f'all {n}-bit contents x all positions', D_POS, n=n, cls=c)
        for (n, m) in ([(6, 2), (5, 0)] if q else [(6, 1), (6, 2), (8, 3), (5, 0), (10, 2)]):
            for rev in (False, True):
                if q and c == 'BitStream' and rev:
                    continue
                add(f"C06.{'rfind' if rev else 'find'}[{c},n={n},m={m}]", h_find(c, n, m, rev), f'all contents ({n}-bit data, {m}-bit pattern) x all positions x start,end in [-{n + 1},{n + 1}] or None', D_FIND, n=n, m=m, cls=c)
        for (n, m) in ([(9, 1), (4, 0)] if q else [(9, 1), (9, 2), (4, 0), (12, 2), (17, 8)]):
            add(f'C06.readto[{c},n={n},m={m}]', h_readto(c, n, m), f'all contents ({n}-bit data, {m}-bit pattern) x all positions x bytealigned in {{None,False,True}}', D_FIND, n=n, m=m, cls=c)
        for n in ([0, 4] if q else [0, 1, 4, 9]):
            add(f'C06.new-objects[{c},n={n}]', h_new_objects(c, n), f'all {n}-bit contents x all positions; copy, slice, operators, cut, split', D_NEW, n=n, cls=c)
            add(f'C06.pos-irrelevant[{c},n={n}]', h_pos_irrelevant(c, n), f'all {n}-bit contents x all pairs of positions; 17 non-stream operations', D_NEW, n=n, cls=c)
    for op in ['append', 'iadd', 'prepend', 'clear', 'insert', 'overwrite', 'delslice', 'delitem', 'setslice', 'replace', 'replace-str', 'setitem', 'setslice-step', 'imul']:
        for (n, m) in (([(5, 0), (9, 0)] if op == 'replace-str' else [(0, 2), (5, 2), (5, 0)]) if q else [(0, 2), (5, 2), (5, 0), (8, 3), (1, 1), (9, 0)]):
            add(f'C06.pos-after-{op}[BitStream,n={n},m={m}]', h_mut_pos(op, n, m), f'all contents ({n}+{m} bits) x all positions x every int argument', D_MUT, n=n, m=m)
    for op in ['append', 'iadd', 'prepend', 'insert', 'overwrite']:
        for n in ([0, 5] if q else [0, 1, 5, 8, 9]):
            add(f'C06.pos-after-{op}-self[BitStream,n={n}]', h_self_operand(op, n), f'all {n}-bit contents x all positions x every int position argument; the operand is the stream itself', D_MUT, n=n)
    for op in ['append', 'overwrite']:
        for (n, m) in [(4, 2), (0, 1)]:
            add(f'C06.const-{op}[n={n},m={m}]', h_const_mut(op, n, m), f'all contents ({n}+{m} bits) x all positions', D_MUT, n=n, m=m)
    for which in ['uint4', 'hex', 'bin', 'int', 'bytes']:
        for n in ([8, 16] if q else [0, 4, 8, 16]):
            add(f'C06.prop-assign[{which},n={n}]', h_prop_assign(n, which), f'all {n}-bit contents x all positions', D_MUT, n=n)
    return conds
