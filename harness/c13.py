"""C13 - equality and hashing form a consistent contract across classes and routes."""
from __future__ import annotations

from kit.engine import Cond
from kit import oracle as O
from kit import logic as L
from kit.state import mk, raw, call, classes, is_stream, is_mutable, same
from harness.common import CLS, _obj, _unchanged, _operand, _operand_unchanged

ASSUMPTIONS = [
    "hash(): the builtin is replaced inside bitstring.bits by a probe returning its argument, so Bits.__hash__ yields its hash *input* "
    "(bytes, length); CPython's hash of equal tuples being equal is trusted",
    "transitivity of == is a consequence of the asserted agreement with bit-sequence equality (an equivalence) and is not a separate query",
    "file-backed routes are covered in the C08 harness conditions named C13.eq-file*",
]

D_EQ = ['bitstring.bits:Bits.__eq__', 'bitstring.bits:Bits.__ne__', 'bitstring.bits:Bits._create_from_bitstype',
        'bitstring.bits:Bits._setauto_no_length_or_offset', 'bitstring.bitstore:BitStore.__eq__']
D_HASH = ['bitstring.bits:Bits.__hash__', 'bitstring.bits:Bits.tobytes', 'bitstring.bitstore:BitStore.tobytes',
          'bitstring.bits:Bits.__getitem__', 'bitstring.bits:Bits.__add__']


def _install_hash_probe():
    import bitstring.bits as bb
    bb.hash = lambda x: x  # noqa: E731  the probe: __hash__ returns its input


def h_eq(lname, rkind, n, m):
    def h(K):
        cls, x, pos, a = _obj(K, lname, n)
        b, y, ocls = _operand(K, rkind, m)
        exp = same(x, y)
        r1 = call(lambda: a == b)
        r2 = call(lambda: a != b)
        if not (r1.ok and r2.ok):
            return K.fail('== / != raised', exc=r1.excname or r2.excname)
        if not K.check((r1.value == exp), '== disagrees with bit-sequence equality', got=r1.value, expected=exp):
            return False
        if not K.check((r2.value == (not exp)) if not K.symbolic else (r2.value != r1.value), '!= is not the negation of =='):
            return False
        if ocls is not None:
            r3 = call(lambda: b == a)
            r4 = call(lambda: b != a)
            if not (r3.ok and r4.ok):
                return K.fail('reflected == raised', exc=r3.excname or r4.excname)
            if not K.check(r3.value == r1.value, '== is not symmetric'):
                return False
            if not K.check(r4.value == r2.value, '!= is not symmetric'):
                return False
        elif rkind.startswith('str:') or rkind in ('bytes', 'bytearray'):
            r3 = call(lambda: a.__eq__(b))
            if not K.check(r3.ok and (r3.value == exp), 'a.__eq__(promotable)'):
                return False
        return K.check(_unchanged(K, a, x, pos) and _operand_unchanged(K, b, y, ocls), 'operands changed by comparison')
    return h


def h_refl(cname, n):
    def h(K):
        cls, x, pos, a = _obj(K, cname, n)
        r = call(lambda: (a == a, a != a))
        if not r.ok:
            return K.fail('a == a raised', exc=r.excname)
        return K.check(r.value[0] and not r.value[1], 'reflexivity')
    return h


def h_pos_independent(cname, n):
    """2-safety: two streams with the same bits and different positions are equal (and hash alike when hashable)"""
    def h(K):
        cls = classes()[cname]
        x = K.bits('x', n)
        p1, p2 = K.int('p1', 0, n), K.int('p2', 0, n)
        a, b = mk(K, cls, x, p1), mk(K, cls, x, p2)
        r = call(lambda: (a == b, a != b))
        if not r.ok:
            return K.fail('== raised', exc=r.excname)
        if not K.check(r.value[0] and not r.value[1], 'equal bits at different stream positions compare unequal'):
            return False
        if not is_mutable(cls):
            ha, hb = call(a.__hash__), call(b.__hash__)
            if not (ha.ok and hb.ok):
                return K.fail('__hash__ raised', exc=ha.excname or hb.excname)
            return K.check(_hash_eq(ha.value, hb.value), 'hash depends on the stream position')
        return True
    return h


def _hash_eq(h1, h2):
    """compare two hash inputs (tuples (bytes, length)) or ints"""
    if isinstance(h1, tuple) and isinstance(h2, tuple):
        if len(h1) != len(h2):
            return False
        ok = True
        for u, v in zip(h1, h2):
            ok = ok and (u == v)
        return ok
    return h1 == h2


def h_nonpromotable(cname, n, kind):
    def h(K):
        cls, x, pos, a = _obj(K, cname, n)
        if kind == 'int':
            v = K.int('v')
        elif kind == 'float':
            v = K.float('f')
        elif kind == 'none':
            v = None
        else:
            v = object()
        r = call(lambda: (a == v, a != v))
        if not r.ok:
            return K.fail('comparison with a non-promotable object raised instead of returning False', exc=r.excname)
        eqv, nev = r.value
        return K.check((eqv is False or eqv == False) and (nev is True or nev == True), 'comparison with a non-promotable object', eq=eqv, ne=nev)  # noqa: E712
    return h


def h_hash(n, mode_switch=False):
    """equal content => equal hash input, across the hashable classes and positions; result is a function of the bits.
    mode_switch: the second object is hashed with options.lsb0 set (hash is a whole-value notion: same in both modes, and a set built in one mode
    must find its members in the other)"""
    def h(K):
        import bitstring
        x = K.bits('x', n)
        p = K.int('p', 0, n)
        a = mk(K, bitstring.Bits, x)
        b = mk(K, bitstring.ConstBitStream, x, p)
        ha = call(a.__hash__)
        bitstring.options.lsb0 = mode_switch
        try:
            hb = call(b.__hash__)
            ha2 = call(a.__hash__)
        finally:
            bitstring.options.lsb0 = False
        if mode_switch and not K.check(ha.ok and ha2.ok and _hash_eq(ha.value, ha2.value), 'the hash of one and the same object changes when options.lsb0 is switched'):
            return False
        if not (ha.ok and hb.ok):
            return K.fail('__hash__ raised', exc=ha.excname or hb.excname)
        if not K.check(_hash_eq(ha.value, hb.value), 'equal Bits and ConstBitStream hash differently'):
            return False
        # a second object with independently chosen content: equal content must give equal hash input
        y = K.bits('y', n)
        c = mk(K, bitstring.Bits, y)
        hc = call(c.__hash__)
        if not hc.ok:
            return K.fail('__hash__ raised', exc=hc.excname)
        if same(x, y):
            return K.check(_hash_eq(ha.value, hc.value), 'equal objects with different hashes')
        return K.check(_unchanged(K, a, x, None) and b._pos == p, 'hash changed its operand')
    return h


def h_hash_pickle(cname, n):
    """the hash of an object that went through pickle / deepcopy is computed by the interpreter that asks for it: another process has another
    string-hash seed (simulated by salting the hash probe between the dump and the load), so nothing derived from hash() may travel with the object"""
    def h(K):
        import bitstring
        import bitstring.bits as bb
        import pickle
        import copy
        cls = classes()[cname]
        bits = ''.join('1' if (i * 7 + i // 3) % 5 in (0, 3) else '0' for i in range(n))
        a = cls(bin=bits) if n else cls()
        how = K.choice('how', ['pickle', 'deepcopy', 'pickle-unhashed'])
        bb.hash = lambda x: ('seed-A', x)
        try:
            if how != 'pickle-unhashed':
                call(a.__hash__)
            r = call(lambda: pickle.loads(pickle.dumps(a)) if how != 'deepcopy' else copy.deepcopy(a))
            if not r.ok:
                return K.fail('pickle / deepcopy of a bitstring raised', how=how, exc=r.excname)
            b = r.value
            bb.hash = lambda x: ('seed-B', x)          # "another interpreter"
            fresh = cls(bin=bits) if n else cls()
            hb, hf = call(b.__hash__), call(fresh.__hash__)
            if not (hb.ok and hf.ok):
                return K.fail('__hash__ raised', exc=hb.excname or hf.excname)
            return K.check((b == fresh) and hb.value == hf.value, 'an object restored from a pickle / deep copy equals a fresh one but hashes differently', how=how)
        finally:
            bb.hash = lambda x: x
    return h


def h_eq_route(cname, route, n):
    """an object built through a file / window route equals (and hashes like) the in-memory object with the same bits"""
    def h(K):
        import bitstring
        from harness.c08 import build
        from kit import files as F
        cls = classes()[cname]
        try:
            X, e = build(K, cls, route, n)
            Y = mk(K, bitstring.Bits, e)
            other = K.bits('other', n)
            Z = mk(K, bitstring.Bits, other)
            r = call(lambda: (X == Y, Y == X, X != Y, X == Z, Z == X))
            if not r.ok:
                return K.fail('== raised', exc=r.excname)
            a, b, c, d, f = r.value
            exp = same(e, other)
            if not K.check(L.And(a, b, L.Not(c), L.Iff(d, exp), L.Iff(f, exp)), 'an object built through this route does not compare like its bits', route=route):
                return False
            if not is_mutable(cls):
                hx, hy = call(X.__hash__), call(mk(K, cls, e).__hash__)
                return K.check(hx.ok and hy.ok and _hash_eq(hx.value, hy.value), 'equal objects built by different routes hash differently', route=route)
            return True
        finally:
            if not K.symbolic:
                F.cleanup()
    return h


def h_unhashable(cname):
    def h(K):
        cls, x, pos, a = _obj(K, cname, 3)
        if cls.__hash__ is not None:
            return K.fail('mutable class is hashable')
        r = call(lambda: hash(a))
        return K.check(r.raised(TypeError), 'hash() of a mutable bitstring must raise TypeError', exc=r.excname)
    return h


def h_ordering(lname, rname):
    def h(K):
        cls, x, pos, a = _obj(K, lname, 3)
        b, y, ocls = _operand(K, rname, 3)
        for f in (lambda: a < b, lambda: a > b, lambda: a <= b, lambda: a >= b):
            r = call(f)
            if not r.raised(TypeError):
                return K.fail('ordering operator did not raise TypeError (must return NotImplemented)', exc=r.excname)
        for nm in ('__lt__', '__gt__', '__le__', '__ge__'):
            if getattr(a, nm)(b) is not NotImplemented:
                return K.fail(nm + ' does not return NotImplemented')
        return True
    return h


def conditions(tier):
    q = tier == 'quick'
    conds = []
    T = 120
    lens = [0, 1, 8, 9] if q else [0, 1, 2, 7, 8, 9, 63, 64, 65, 200]
    for l in CLS:
        for r in CLS:
            for n in lens:
                conds.append(Cond(f'C13.eq[{l},{r},n={n}]', h_eq(l, r, n, n), f'all pairs of {n}-bit contents, all stream positions', D_EQ, {'n': n}, timeout=T))
            for (n, m) in ([(0, 1), (8, 9)] if q else [(0, 1), (1, 0), (8, 9), (9, 8), (64, 65)]):
                conds.append(Cond(f'C13.eq[{l},{r},n={n},m={m}]', h_eq(l, r, n, m), f'all contents, lengths {n} and {m}', D_EQ, {'n': n, 'm': m}, timeout=T))
        for n, m in [(1, 8), (7, 8), (9, 16)]:
            conds.append(Cond(f'C13.eq[{l},bytearray,n={n},m={m}]', h_eq(l, 'bytearray', n, m), f'all {n}-bit contents x all {m // 8}-byte bytearrays', D_EQ, {'n': n}, timeout=T))
        for n, m in [(8, 8), (16, 16), (8, 16), (0, 8), (1, 8), (5, 8), (7, 8), (9, 16), (15, 16)]:
            conds.append(Cond(f'C13.eq[{l},bytes,n={n},m={m}]', h_eq(l, 'bytes', n, m), f'all {n}-bit contents x all {m // 8}-byte values', D_EQ, {'n': n}, timeout=T))
        for n, m in [(3, 3), (3, 2), (0, 0)]:
            conds.append(Cond(f'C13.eq[{l},bools,n={n},m={m}]', h_eq(l, 'bools', n, m), f'all {n}-bit contents x all bool lists of length {m}', D_EQ, {'n': n}, timeout=T))
        for tok, m in (('0x5', 4), ('0b011', 3), ('0xa5, 0b1', 9), ('', 0), ('uint:3=5', 3)):
            for n in (m, m + 1):
                conds.append(Cond(f'C13.eq[{l},str:{tok},n={n}]', h_eq(l, 'str:' + tok, n, m), f'all {n}-bit contents vs token string {tok!r}', D_EQ, {'n': n}, timeout=T))
        for n in ([0, 8] if q else [0, 1, 8, 65]):
            conds.append(Cond(f'C13.refl[{l},n={n}]', h_refl(l, n), f'all {n}-bit contents', D_EQ, {'n': n}, timeout=T))
            for kind in ('int', 'float', 'none', 'object'):
                conds.append(Cond(f'C13.nonpromotable[{l},{kind},n={n}]', h_nonpromotable(l, n, kind),
                                  f'all {n}-bit contents x ' + {'int': 'every Python int', 'float': 'every float64', 'none': 'None', 'object': 'object()'}[kind],
                                  D_EQ, {'n': n}, timeout=T))
        conds.append(Cond(f'C13.ordering[{l}]', h_ordering(l, 'Bits'), 'all 3-bit contents; <, >, <=, >=', ['bitstring.bits:Bits.__lt__', 'bitstring.bits:Bits.__gt__', 'bitstring.bits:Bits.__le__', 'bitstring.bits:Bits.__ge__'], timeout=T))
    for l in ('ConstBitStream', 'BitStream'):
        for n in ([1, 8] if q else [1, 8, 9, 64]):
            conds.append(Cond(f'C13.pos-independent[{l},n={n}]', h_pos_independent(l, n), f'all {n}-bit contents x all pairs of stream positions', D_EQ + D_HASH, {'n': n}, timeout=T, setup=_install_hash_probe))
    for n in ([0, 1, 8, 9, 1999, 2000, 2001, 2500] if q else [0, 1, 7, 8, 9, 64, 1599, 1600, 1601, 1999, 2000, 2001, 2500, 3601]):
        conds.append(Cond(f'C13.hash[n={n}]', h_hash(n), f'all pairs of {n}-bit contents, all stream positions', D_HASH, {'n': n}, timeout=300, setup=_install_hash_probe))
        if n in (9, 2000, 2001, 2500, 3601):
            conds.append(Cond(f'C13.hash[n={n},lsb0-switch]', h_hash(n, True), f'all pairs of {n}-bit contents, all stream positions; options.lsb0 switched between the two hash calls', D_HASH, {'n': n}, timeout=300,
                              setup=_install_hash_probe))
    for l in ('Bits', 'ConstBitStream'):
        for n in ([24, 2700] if q else [0, 12, 24, 2000, 2001, 2700]):
            conds.append(Cond(f'C13.hash-pickle[{l},n={n}]', h_hash_pickle(l, n), f'a concrete {n}-bit pattern; pickle / deepcopy, hashed before or not; hash seed changed in between', D_HASH, {'n': n}, timeout=T))
    def _setup_files_and_probe():
        from kit import files as F
        F.install_fakes()
        _install_hash_probe()
    for l in (['Bits', 'BitArray'] if q else CLS):
        for route in (['file-len', 'file-offset-len', 'bytes-window'] if q else ['file-len', 'file-len-unaligned', 'file-offset', 'file-offset-len', 'handle-len', 'bytes-window', 'bitarray-window', 'slice-of-larger']):
            for n in ([5] if q else [0, 5, 8, 13]):
                conds.append(Cond(f'C13.eq-file[{l},{route},n={n}]', h_eq_route(l, route, n), f'all raw contents behind route {route} (logical length {n}) x all {n}-bit comparands', D_EQ + D_HASH,
                                  {'n': n, 'route': route}, timeout=T, setup=_setup_files_and_probe))
    for l in ('BitArray', 'BitStream'):
        conds.append(Cond(f'C13.unhashable[{l}]', h_unhashable(l), 'all 3-bit contents', ['bitstring.bitarray_:BitArray.__copy__'], timeout=T))
    return conds
