"""C09 - construction and parsing are pure: results never depend on call history.

Reduced to an inductive cache invariant (every memo entry equals what a cold call with that key returns under
the options now in force, and is never mutated):
  key sufficiency  - for every memoised entry point and catalogue key: call under options s1, switch to s2, call
                     again with the caches live, compare with a cold call under s2 (s1, s2 chosen by the solver)
  eviction         - all caches re-wrapped with maxsize=2; call sequences of length <= 4 over 3 keys chosen by
                     solver forks, interleaved with option flips; each call compared with its cold twin
  no mutation of cached values is C04's subject (run there with the cache live).
"""
from __future__ import annotations

import functools

from kit.engine import Cond
from kit import oracle as O
from kit import logic as L
from kit import env
from kit.state import mk, raw, call, classes, same, get_attr

ASSUMPTIONS = [
    "keys of the memoised functions are concrete catalogue strings (hashing concretises them); option values, numeric keyword arguments and the choice sequence are solver-chosen",
    "functools' LRU bookkeeping is trusted; eviction is exercised with the cache size shrunk to 2 (CACHE_SIZE is 256 in production)",
]

D = ['bitstring.bitstore_helpers:str_to_bitstore', 'bitstring.bitstore_helpers:bitstore_from_token', 'bitstring.utils:tokenparser', 'bitstring.utils:preprocess_tokens',
     'bitstring.utils:parse_name_length_token', 'bitstring.utils:parse_single_struct_token', 'bitstring.utils:parse_single_token', 'bitstring.dtypes:Dtype._new_from_token',
     'bitstring.dtypes:Dtype._create', 'bitstring.bitstring_options:Options.set_lsb0', 'bitstring.bitstring_options:Options.mxfp_overflow', 'bitstring.array_:Array._calculate_auto_scale']

STRINGS = ['0b0110', '0x5a, 0b1', 'uint:8=200', 'int:4=-3', 'hex:8=a5', 'float:32=1.5', 'e4m3mxfp=1000', 'e5m2mxfp=100000', 'e4m3mxfp=-1000', 'p4binary=1000', 'ue=3', 'se=-2', 'uie=5', 'sie=0',
           'uintle:16=258', 'bool=True', '2*uint:4=3', 'mxint=0.5', 'e2m1mxfp=100', 'bfloat=1.5', 'pad:3', 'bytes:1=a', '0o17', 'floatne:16=0.5', 'bits:4=0b1010', 'uint8=1, ue=2']


def _set_opts(K, tag):
    import bitstring
    lsb0 = K.bool(tag + '.lsb0')
    ba = K.bool(tag + '.bytealigned')
    mo = 'overflow' if K.bool(tag + '.mxfp_overflow') else 'saturate'
    bitstring.options.lsb0 = lsb0
    bitstring.options.bytealigned = ba
    bitstring.options.mxfp_overflow = mo
    return (lsb0, ba, mo)


def _outcome(K, r):
    """comparable summary of a call result"""
    if not r.ok:
        return ('exc', type(r.exc).__name__)
    v = r.value
    return ('ok', _plain(v))


def _plain(v):
    if hasattr(v, '_bitstore'):
        return ('bits', type(v).__name__, raw(v).to01())
    if hasattr(v, 'data') and hasattr(v, 'dtype'):
        return ('array', str(v.dtype), raw(v.data).to01())
    if isinstance(v, (list, tuple)):
        return [_plain(x) for x in v]
    if type(v).__name__ == 'Dtype':
        return ('dtype', v.name, v.length, v.bitlength, v.scale, v.variable_length, v.is_signed)
    if isinstance(v, float) and v != v:
        return 'nan'
    if isinstance(v, (bool, int, float)):
        return (type(v).__name__, v)      # 6 and 6.0 are different results
    return v


def _ops():
    import bitstring
    ops = {}
    for s in STRINGS:
        ops[f'Bits({s!r})'] = (lambda s=s: bitstring.Bits(s))
    ops["BitArray('e4m3mxfp=1000')"] = lambda: bitstring.BitArray('e4m3mxfp=1000')
    ops["BitStream.fromstring('ue=3')"] = lambda: bitstring.BitStream.fromstring('ue=3')
    ops["Bits.fromstring('e5m2mxfp=1e9')"] = lambda: bitstring.Bits.fromstring('e5m2mxfp=1e9')
    ops["pack('uint:8, e4m3mxfp', 1, 1000.0)"] = lambda: bitstring.pack('uint:8, e4m3mxfp', 1, 1000.0)
    ops["pack('uint:4, uint:4', 1, 2)"] = lambda: bitstring.pack('uint:4, uint:4', 1, 2)
    ops["pack('uint:n=v', n=8, v=3)"] = lambda: bitstring.pack('uint:n=v', n=8, v=3)
    ops["pack('ue, se', 3, -1)"] = lambda: bitstring.pack('ue, se', 3, -1)
    ops["pack('>HB', 1, 2)"] = lambda: bitstring.pack('>HB', 1, 2)
    ops["pack(['uint:8', 'hex:4'], 7, 'f')"] = lambda: bitstring.pack(['uint:8', 'hex:4'], 7, 'f')
    ops["pack('uint:8', 7)"] = lambda: bitstring.pack('uint:8', 7)
    ops["pack(['uint:n', 'bool', 'int:4'], 7, True, -3, n=8)"] = lambda: bitstring.pack(['uint:n', 'bool', 'int:4'], 7, True, -3, n=8)
    ops["Bits('0xa5c3').unpack(['uint:4', 'bits:4, hex'])"] = lambda: bitstring.Bits('0xa5c3').unpack(['uint:4', 'bits:4, hex'])
    ops["BitStream('0xa5c3').readlist(['uint:4', 'hex:4'])"] = lambda: bitstring.BitStream('0xa5c3').readlist(['uint:4', 'hex:4'])
    ops["Bits('0xa5c3').unpack('uint:4, bits:4, hex')"] = lambda: bitstring.Bits('0xa5c3').unpack('uint:4, bits:4, hex')
    ops["Bits('0b00100').unpack('ue')"] = lambda: bitstring.Bits('0b00100').unpack('ue')
    ops["BitStream('0xa5c3').readlist('uint:a, bin:b', a=3, b=5)"] = lambda: bitstring.BitStream('0xa5c3').readlist('uint:a, bin:b', a=3, b=5)
    ops["Bits('0xa5').find('0b101')"] = lambda: bitstring.Bits('0xa5').find('0b101')
    ops["BitArray() + '0x5a, 0b1'"] = lambda: bitstring.BitArray() + '0x5a, 0b1'
    ops["'uint:8=200' + BitStream()"] = lambda: 'uint:8=200' + bitstring.BitStream()
    ops["BitArray('0b1') + '0x5a, 0b1'"] = lambda: bitstring.BitArray('0b1') + '0x5a, 0b1'
    ops["Dtype('uint8')"] = lambda: bitstring.Dtype('uint8')
    ops["Dtype(Dtype('uint8'), scale=4)"] = lambda: bitstring.Dtype(bitstring.Dtype('uint8'), scale=4)
    ops["Dtype(Array('uint8').dtype, 16)"] = lambda: bitstring.Dtype(bitstring.Array('uint8').dtype, 16)
    ops["Bits('0x02').unpack('uint8')"] = lambda: bitstring.Bits('0x02').unpack('uint8')
    ops["Array('uint8', [1, 2])"] = lambda: bitstring.Array('uint8', [1, 2])
    ops["Dtype('e4m3mxfp', scale=4)"] = lambda: bitstring.Dtype('e4m3mxfp', scale=4)
    ops["Dtype('float', 16)"] = lambda: bitstring.Dtype('float', 16)
    ops["Dtype('ue')"] = lambda: bitstring.Dtype('ue')
    ops["Dtype(' int : 5 ')"] = lambda: bitstring.Dtype(' int : 5 ')
    ops["Dtype('e4m3mxfp').build(1000.0)"] = lambda: bitstring.Dtype('e4m3mxfp').build(1000.0)
    ops["Array('>H', [1, 2])"] = lambda: bitstring.Array('>H', [1, 2])
    ops["Array(Dtype('e2m1mxfp', scale='auto'), [0.5, 40.0])"] = lambda: bitstring.Array(bitstring.Dtype('e2m1mxfp', scale='auto'), [0.5, 40.0])
    ops["Bits('0b1').pp-free str"] = lambda: str(bitstring.Bits('0x5a'))
    return ops


def h_key_sufficiency(opname):
    def h(K):
        import bitstring
        env.clear_caches()
        f = _ops()[opname]
        s1 = _set_opts(K, 's1')
        r1 = call(f)
        s2 = _set_opts(K, 's2')
        warm = _outcome(K, call(f))
        env.clear_caches()
        cold = _outcome(K, call(f))
        if not K.check(warm == cold, 'the result of a call differs from the same call on cold caches (it depends on earlier calls or on option values that were in force earlier)', op=opname, first_options=s1, options=s2,
                       warm=warm, cold=cold):
            return False
        # setting the options back restores the first behaviour exactly
        bitstring.options.lsb0, bitstring.options.bytealigned, bitstring.options.mxfp_overflow = s1
        back = _outcome(K, call(f))
        return K.check(back == _outcome(K, r1), 'setting an option back to an earlier value does not restore the earlier behaviour', op=opname, options=s1, first=_outcome(K, r1), again=back)
    return h


# values that compare (and hash) equal in Python although they are different values for an encoder: any memoisation keyed on
# the raw value conflates them
EQUAL_PAIRS = [(0.0, -0.0), (-0.0, 0.0), (1, True), (True, 1), (1, 1.0), (1.0, 1), (0, False), (False, 0), (0, -0.0), (-0.0, 0), (0.0, False), (2, 2.0)]


def _value_routes():
    import bitstring
    B = bitstring
    return {
        "pack('float:32', v)": lambda v: B.pack('float:32', v), "pack('floatle:64', v)": lambda v: B.pack('floatle:64', v), "pack('float:16', v)": lambda v: B.pack('float:16', v),
        "pack('bfloat', v)": lambda v: B.pack('bfloat', v), "pack('uint:8', v)": lambda v: B.pack('uint:8', v), "pack('int:8', v)": lambda v: B.pack('int:8', v),
        "pack('bool', v)": lambda v: B.pack('bool', v), "pack('e4m3mxfp', v)": lambda v: B.pack('e4m3mxfp', v), "pack('p3binary', v)": lambda v: B.pack('p3binary', v),
        "pack('ue', v)": lambda v: B.pack('ue', v), "pack('uint:4, float:32', 3, v)": lambda v: B.pack('uint:4, float:32', 3, v), "pack('float:n', v, n=32)": lambda v: B.pack('float:n', v, n=32),
        "Bits(float=v, length=32)": lambda v: B.Bits(float=v, length=32), "Bits(uint=v, length=8)": lambda v: B.Bits(uint=v, length=8), "Bits(bool=v)": lambda v: B.Bits(bool=v),
        "Dtype('float32').build(v)": lambda v: B.Dtype('float32').build(v), "Dtype('bfloat').build(v)": lambda v: B.Dtype('bfloat').build(v),
        "Array('float32', [v])": lambda v: B.Array('float32', [v]), "Array('float16', [v]).append": lambda v: _arr_append(B, v),
        "BitArray.float = v": lambda v: _set_float(B, v), "Dtype('uint8', scale=v).parse('0x03')": lambda v: B.Dtype('uint8', scale=v).parse('0x03'),
        "Dtype('uint', 8, scale=v).parse('0x03')": lambda v: B.Dtype('uint', 8, scale=v).parse('0x03'), "Dtype('float16', scale=v).build(3.0)": lambda v: B.Dtype('float16', scale=v).build(3.0),
        "Array(Dtype('uint8', scale=v), [4]).tolist()": lambda v: B.Array(B.Dtype('uint8', scale=v), [4]).tolist(), "Dtype('uint', v)": lambda v: B.Dtype('uint', v), "Bits(uint=3, length=v)": lambda v: B.Bits(uint=3, length=v), "Bits('float:32=' + str(v))": lambda v: B.Bits('float:32=' + str(v)), "Bits([v])": lambda v: B.Bits([v]),
    }


def _arr_append(B, v):
    a = B.Array('float16')
    a.append(v)
    return a


def _set_float(B, v):
    a = B.BitArray(32)
    a.float = v
    return a


def h_equal_keys(route):
    """history independence across values that Python treats as equal dictionary keys: building w first must not change what v gives"""
    def h(K):
        env.clear_caches()
        f = _value_routes()[route]
        i = K.choice('pair', list(range(len(EQUAL_PAIRS))))
        w, v = EQUAL_PAIRS[i]
        _set_opts(K, 's')
        call(lambda: f(w))
        warm = _outcome(K, call(lambda: f(v)))
        env.clear_caches()
        cold = _outcome(K, call(lambda: f(v)))
        return K.check(warm == cold, 'the result for a value depends on an equal-comparing but different value having been built earlier', route=route, earlier=repr(w), value=repr(v), warm=warm, cold=cold)
    return h


def _shrink_caches():
    """re-wrap every lru cache of the package with maxsize=2 (module attributes and from-imports)"""
    env.live_caches()
    import bitstring
    from bitstring import bitstore_helpers, utils, dtypes, methods, bits, array_
    for mod, names in ((bitstore_helpers, ['str_to_bitstore']), (utils, ['parse_name_length_token', 'parse_single_struct_token', 'parse_single_token', 'preprocess_tokens', 'tokenparser'])):
        for nm in names:
            f = getattr(mod, nm)
            inner = getattr(f, '__wrapped__', f)
            nf = functools.lru_cache(2, typed=f.cache_parameters()['typed'])(inner)
            setattr(mod, nm, nf)
            for other in (methods, bits, array_, bitstore_helpers, dtypes):
                if nm in vars(other) and other is not mod:
                    setattr(other, nm, nf)
    for nm in ('_create', '_new_from_token'):
        inner = dtypes.Dtype.__dict__[nm].__func__
        typed = inner.cache_parameters()['typed'] if hasattr(inner, 'cache_parameters') else env.DTYPE_CACHE_PARAMS.get(nm, {}).get('typed', False)
        inner = getattr(inner, '__wrapped__', inner)
        setattr(dtypes.Dtype, nm, classmethod(functools.lru_cache(2, typed=typed)(inner)))


def h_eviction(keys, steps):
    def h(K):
        import bitstring
        env.clear_caches()
        ops = _ops()
        cur = _set_opts(K, 'o0')
        for t in range(steps):
            act = K.choice(f'act{t}', ['call0', 'call1', 'call2', 'flip-lsb0', 'flip-mxfp'])
            if act == 'flip-lsb0':
                bitstring.options.lsb0 = not bitstring.options.lsb0
                continue
            if act == 'flip-mxfp':
                bitstring.options.mxfp_overflow = 'overflow' if bitstring.options.mxfp_overflow == 'saturate' else 'saturate'
                continue
            name = keys[int(act[-1])]
            warm = _outcome(K, call(ops[name]))
            # cold twin: same call, same options, all caches emptied, then the caches are restored by replaying nothing
            saved = {k: None for k in env.all_caches()}
            env.clear_caches()
            cold = _outcome(K, call(ops[name]))
            if not K.check(warm == cold, 'a call in a warm interpreter differs from the same call on cold caches', step=t, op=name,
                           options=(bitstring.options.lsb0, bitstring.options.mxfp_overflow), warm=warm, cold=cold):
                return False
        return True
    return h


def h_hit_equals_miss(opname):
    """the second (cache hit) call returns a value equal to, and not aliased with a mutable result of, the first"""
    def h(K):
        import bitstring
        env.clear_caches()
        f = _ops()[opname]
        _set_opts(K, 's')
        a, b = call(f), call(f)
        ob = _outcome(K, b)        # taken now: b itself may share storage with a
        if not K.check(_outcome(K, a) == ob, 'cache hit differs from cache miss', op=opname):
            return False
        if a.ok and hasattr(a.value, '_bitstore') and isinstance(a.value, bitstring.BitArray) and len(a.value):
            a.value.invert()
            if not K.check(_outcome(K, b) == ob, 'mutating one result changed another result of the same call', op=opname):
                return False
            c = call(f)
            return K.check(_outcome(K, c) == ob, 'mutating an earlier result changed what a later identical call returns', op=opname)
        return True
    return h


def conditions(tier):
    q = tier == 'quick'
    conds = []
    T = 200 if q else 450

    def add(cid, fn, bounds, setup=env.live_caches, **params):
        conds.append(Cond(cid, fn, bounds, D, params, timeout=T, setup=setup))

    names = list(_ops_names())
    for nm in names:
        add(f'C09.key-sufficiency[{nm}]', h_key_sufficiency(nm), 'all pairs of option settings (lsb0, bytealigned, mxfp_overflow) before/after; warm vs cold; options restored', op=nm)
        add(f'C09.hit-equals-miss[{nm}]', h_hit_equals_miss(nm), 'all option settings; second call vs first; mutation of the first result', op=nm)
    for rt in ["pack('float:32', v)", "pack('floatle:64', v)", "pack('float:16', v)", "pack('bfloat', v)", "pack('uint:8', v)", "pack('int:8', v)", "pack('bool', v)", "pack('e4m3mxfp', v)",
               "pack('p3binary', v)", "pack('ue', v)", "pack('uint:4, float:32', 3, v)", "pack('float:n', v, n=32)", "Bits(float=v, length=32)", "Bits(uint=v, length=8)", "Bits(bool=v)",
               "Dtype('float32').build(v)", "Dtype('bfloat').build(v)", "Array('float32', [v])", "Array('float16', [v]).append", "BitArray.float = v", "Bits('float:32=' + str(v))", "Bits([v])", "Dtype('uint8', scale=v).parse('0x03')", "Dtype('uint', 8, scale=v).parse('0x03')",
               "Dtype('float16', scale=v).build(3.0)", "Array(Dtype('uint8', scale=v), [4]).tolist()", "Dtype('uint', v)", "Bits(uint=3, length=v)"]:
        add(f'C09.equal-keys[{rt}]', h_equal_keys(rt), f'{len(EQUAL_PAIRS)} ordered pairs of equal-comparing values (0.0/-0.0, 1/True/1.0, 0/False/-0.0, 2/2.0) x all option settings; warm vs cold', route=rt)
    triples = [("Bits('e4m3mxfp=1000')", "Bits('ue=3')", "Bits('0b0110')"), ("pack('uint:8, e4m3mxfp', 1, 1000.0)", "Dtype('uint8')", "Bits('uint:8=200')"),
               ("Bits('0x5a, 0b1')", "BitArray('e4m3mxfp=1000')", "Bits('e5m2mxfp=100000')"), ("pack(['uint:8', 'hex:4'], 7, 'f')", "pack('uint:8', 7)", "Bits('uint:8=200')"),
               ("Dtype(Dtype('uint8'), scale=4)", "Dtype('uint8')", "Bits('0x02').unpack('uint8')"), ("Dtype(Array('uint8').dtype, 16)", "Array('uint8', [1, 2])", "Dtype('uint8')")]
    if not q:
        triples += [("Bits('se=-2')", "Bits('uie=5')", "Bits('p4binary=1000')"), ("Dtype('e4m3mxfp', scale=4)", "Dtype('float', 16)", "Array('>H', [1, 2])")]
    for i, tr in enumerate(triples):
        add(f'C09.eviction[{i}]', h_eviction(tr, 3 if q else 4), f'caches shrunk to 2 entries; every sequence of {3 if q else 4} steps over calls {tr} and option flips, from every initial option setting',
            setup=_shrink_caches, keys=' | '.join(tr))
    return conds


def _ops_names():
    # names only (bitstring must not be imported at module import time in replay-less contexts)
    return [f'Bits({s!r})' for s in STRINGS] + ["BitArray('e4m3mxfp=1000')", "BitStream.fromstring('ue=3')", "Bits.fromstring('e5m2mxfp=1e9')", "pack('uint:8, e4m3mxfp', 1, 1000.0)",
            "pack('uint:4, uint:4', 1, 2)", "pack(['uint:8', 'hex:4'], 7, 'f')", "pack('uint:8', 7)", "pack(['uint:n', 'bool', 'int:4'], 7, True, -3, n=8)",
            "Bits('0xa5c3').unpack(['uint:4', 'bits:4, hex'])", "BitStream('0xa5c3').readlist(['uint:4', 'hex:4'])", "pack('uint:n=v', n=8, v=3)", "pack('ue, se', 3, -1)", "pack('>HB', 1, 2)", "Bits('0xa5c3').unpack('uint:4, bits:4, hex')",
            "Bits('0b00100').unpack('ue')", "BitStream('0xa5c3').readlist('uint:a, bin:b', a=3, b=5)", "Bits('0xa5').find('0b101')", "Dtype('uint8')", "Dtype('e4m3mxfp', scale=4)",
            "BitArray() + '0x5a, 0b1'", "'uint:8=200' + BitStream()", "BitArray('0b1') + '0x5a, 0b1'", "Dtype('float', 16)", "Dtype(Dtype('uint8'), scale=4)", "Dtype(Array('uint8').dtype, 16)", "Bits('0x02').unpack('uint8')", "Array('uint8', [1, 2])", "Dtype('ue')", "Dtype(' int : 5 ')", "Dtype('e4m3mxfp').build(1000.0)", "Array('>H', [1, 2])", "Array(Dtype('e2m1mxfp', scale='auto'), [0.5, 40.0])",
            "Bits('0b1').pp-free str"]
