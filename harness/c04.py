"""C04 - value isolation: immutable objects never change, mutable ones never share state.

A condition = (derivation route from A to B) x (mutation applied to one side): build A, derive B,
snapshot both contents as terms, mutate the mutable side (or the source buffer / the bitarray obtained
with tobitarray()), assert that the other side still equals its snapshot.  The model bitarray keeps
identity semantics (in-place mutators mutate the shared object), so aliasing is observable.
"""
from __future__ import annotations

import array
import copy

from kit.engine import Cond
from kit import oracle as O
from kit import logic as L
from kit import env
from kit.state import mk, raw, call, classes, is_stream, is_mutable, same, get_attr, set_attr
from harness.common import CLS

ASSUMPTIONS = [
    "derivation routes and mutations are finite catalogues (every constructor form, operator and method returning a bitstring or bitarray); contents, lengths in a grid and mutation arguments are symbolic",
    "the string-parse cache is live (real functools.lru_cache on concrete keys) and cleared at the start of every path",
]

D = ['bitstring.bits:Bits.__new__', 'bitstring.bits:Bits.__init__', 'bitstring.bitarray_:BitArray.__init__', 'bitstring.bitstream:BitStream.__init__', 'bitstring.bitstream:ConstBitStream.__init__',
     'bitstring.bits:Bits._setbits', 'bitstring.bits:Bits._setauto_no_length_or_offset', 'bitstring.bits:Bits._setbitarray', 'bitstring.bits:Bits.copy', 'bitstring.bits:Bits.__copy__',
     'bitstring.bits:Bits._copy', 'bitstring.bitarray_:BitArray.copy', 'bitstring.bitarray_:BitArray.__copy__', 'bitstring.bitstream:ConstBitStream.__copy__', 'bitstring.bitstream:BitStream.__copy__',
     'bitstring.bitstore:BitStore.copy', 'bitstring.bitstore:BitStore._copy', 'bitstring.bits:Bits.tobitarray', 'bitstring.bits:Bits.fromstring', 'bitstring.bitstream:ConstBitStream.fromstring',
     'bitstring.bits:Bits._addleft', 'bitstring.bits:Bits._addright', 'bitstring.bits:Bits.join', 'bitstring.methods:pack', 'bitstring.array_:Array.__init__', 'bitstring.array_:Array.__getitem__',
     'bitstring.array_:Array.__copy__', 'bitstring.bitstore_helpers:str_to_bitstore', 'bitstring.bitarray_:BitArray.__setattr__']

N = 4  # bits of the source object unless stated


def _routes():
    """name -> function(A, cls_B) -> B (a bitstring, Array, or bitarray derived from A)"""
    import bitstring
    R = {
        'auto': lambda A, CB: CB(A),
        'bits-kw': lambda A, CB: CB(bits=A),
        'copy()': lambda A, CB: A.copy(),
        'copy.copy': lambda A, CB: copy.copy(A),
        'copy.deepcopy': lambda A, CB: copy.deepcopy(A),
        'slice-all': lambda A, CB: A[:],
        'slice-part': lambda A, CB: A[1:],
        'slice-step': lambda A, CB: A[::1],
        'add-empty': lambda A, CB: A + CB(),
        'add-right': lambda A, CB: A + CB('0b1'),
        'add-left-longer': lambda A, CB: CB('0b101010') + A,
        'empty-plus': lambda A, CB: CB() + A,
        'short-plus': lambda A, CB: CB('0b1') + A,
        'radd-empty': lambda A, CB: A.__radd__(CB()),
        'plus-empty-str': lambda A, CB: A + '',
        'empty-str-plus': lambda A, CB: '' + A,
        'mul-empty-plus': lambda A, CB: (CB('0b1') * 0) + A,
        'empty-plus-literal': lambda A, CB: CB() + '0b0110',        # (cache conditions only: the literal is the cached string of source 'string')
        'literal-plus-empty': lambda A, CB: '0b0110' + CB(),
        'short-plus-literal': lambda A, CB: CB('0b1') + '0b0110',
        'radd-str': lambda A, CB: '0b1' + A,
        'mul1': lambda A, CB: A * 1,
        'rshift0': lambda A, CB: A >> 0,
        'lshift0': lambda A, CB: A << 0,
        'and-self': lambda A, CB: A & A,
        'or-self': lambda A, CB: A | A,
        'invert-twice': lambda A, CB: ~(~A),
        'join': lambda A, CB: CB().join([A]),
        'join-sep': lambda A, CB: A.join([CB(), CB()]),
        'pack-bits': lambda A, CB: bitstring.pack('bits', A),
        'pack-kw': lambda A, CB: bitstring.pack('x', x=A),
        'bits-property': lambda A, CB: A.bits,
        'cut': lambda A, CB: list(A.cut(len(A) or 1))[0] if len(A) else A.copy(),
        'split': lambda A, CB: list(A.split('0b1'))[0],
        'unpack-bits': lambda A, CB: A.unpack('bits')[0],
        'prop-assign-bits': lambda A, CB: _assign_bits(CB, A),
        'Array-data': lambda A, CB: bitstring.Array('uint1', A).data,
        'Array-slice': lambda A, CB: bitstring.Array('uint1', A)[:].data,
        'Array-copy': lambda A, CB: copy.copy(bitstring.Array('uint1', A)).data,
        'tobitarray-back': lambda A, CB: CB(A.tobitarray()),
        'bitarray-kw': lambda A, CB: CB(bitarray=A.tobitarray()),
        'Dtype.build': lambda A, CB: bitstring.Dtype('bits').build(A),
    }
    return R


def _assign_bits(CB, A):
    import bitstring
    M = CB if is_mutable(CB) else bitstring.BitArray
    B = M()
    set_attr(B, 'bits', A)
    return B


MUTS = {
    'invert': lambda s: s.invert(), 'append': lambda s: s.append('0b1'), 'set0': lambda s: s.set(1, 0) if len(s) else s.append('0b1'), 'clear': lambda s: s.clear(),
    'setitem': lambda s: s.__setitem__(0, 1) if len(s) else s.append('0b1'), 'ilshift': lambda s: s.__ilshift__(1) if len(s) else s.append('0b1'), 'reverse': lambda s: (s.reverse(), s.invert()),
    'overwrite': lambda s: s.overwrite('0b11', 0), 'imul': lambda s: s.__imul__(2) if len(s) else s.append('0b1'), 'prepend': lambda s: s.prepend('0b0'), 'del': lambda s: s.__delitem__(slice(0, 1)) if len(s) else s.append('0b1'),
    'ixor': lambda s: s.__ixor__(~s) if len(s) else s.append('0b1'), 'replace': lambda s: (s.replace('0b1', '0b00'), s.replace('0b0', '0b1')), 'byteswap': lambda s: (s.byteswap(), s.invert()),
    'prop-uint': lambda s: s.__setattr__('uint', 0) or s.invert() if len(s) else s.append('0b1'), 'insert': lambda s: s.insert('0b1', 0), 'rol': lambda s: (s.rol(1), s.invert()) if len(s) else s.append('0b1'),
}


def _content(obj):
    """bits of a bitstring / Array data / bitarray"""
    if hasattr(obj, '_bitstore'):
        return raw(obj).copy()
    if hasattr(obj, 'data') and hasattr(obj.data, '_bitstore'):
        return raw(obj.data).copy()
    return obj.copy()


def _mutable_thing(obj):
    import bitstring
    return isinstance(obj, bitstring.BitArray) or type(obj).__name__ == 'bitarray'


def _mutate(K, obj, mname):
    if type(obj).__name__ == 'bitarray':
        if len(obj):
            obj.invert()
        else:
            obj.append(1)
        return True
    MUTS[mname](obj)
    return True


def h_pair(ca, cb, route, mname, n, source):
    """A of class ca (content symbolic, or from a concrete cached string), B = route(A); mutate whichever is mutable; the other must not move"""
    def h(K):
        import bitstring
        env.clear_caches()
        CA, CB = classes()[ca], classes()[cb]
        if source == 'symbolic':
            x = K.bits('x', n)
            pos = K.int('pos', 0, n) if is_stream(CA) else None
            A = mk(K, CA, x, pos)
        elif source == 'string':
            A = CA('0b0110')
        elif source == 'fromstring':
            A = CA.fromstring('0b0110')
        elif source == 'cached-twice':
            _ = CA('0x5a')
            A = CA('0x5a')
        elif source.startswith('derived:'):
            # A is itself the result of an earlier operation on another object (two-step histories)
            x = K.bits('x', n + 3)
            big = mk(K, CA, x, 0 if is_stream(CA) else None)
            how = source.split(':')[1]
            if how == 'slice':
                A = big[1:1 + n]
            elif how == 'stepslice':
                A = big[0:n:1]
            elif how == 'read':
                A = big.read(f'bits:{n}') if is_stream(CA) else big[:n]
            elif how == 'add':
                A = big[:n] + CA()
            elif how == 'cut':
                A = list(big.cut(n))[0] if n else big[:0]
            elif how == 'unpack':
                A = big.unpack(f'bits:{n}, bits')[0]
            if type(A) is not CA:
                return K.fail('an operation on a bitstring returned an object of another class', got=type(A).__name__, how=how)
        a0 = _content(A)
        rb = call(lambda: _routes()[route](A, CB))
        if not rb.ok:
            if isinstance(rb.exc, (ValueError, TypeError, bitstring.Error, IndexError)):
                return True     # route not applicable to this class/content (e.g. empty operand)
            return K.fail('derivation route raised an internal error', exc=rb.excname, route=route)
        B = rb.value
        b0 = _content(B)
        if not K.check(same(_content(A), a0), 'deriving an object changed the source', route=route):
            return False
        # mutate B if it is mutable: A must not move
        if _mutable_thing(B) and (B is not A):
            m = call(lambda: _mutate(K, B, mname))
            if m.ok:
                if not K.check(same(_content(A), a0), 'mutating the derived object changed the object it was derived from', route=route, mutation=mname,
                               derived_class=type(B).__name__, source_class=ca, before=a0, after=_content(A)):
                    return False
        # mutate A if it is mutable: B must not move
        if _mutable_thing(A) and (B is not A):
            b1 = _content(B)
            m = call(lambda: _mutate(K, A, mname))
            if m.ok:
                if not K.check(same(_content(B), b1), 'mutating the source changed an object derived from it', route=route, mutation=mname,
                               derived_class=type(B).__name__, source_class=ca, before=b1, after=_content(B)):
                    return False
        # a fresh object built from the same string must still see the original value (cache not corrupted)
        if source != 'symbolic':
            text = '0x5a' if source == 'cached-twice' else '0b0110'
            fresh = bitstring.Bits(text)
            want = O.from01('01011010' if source == 'cached-twice' else '0110')
            if not K.check(same(raw(fresh), want), 'the shared string-parse cache was corrupted by a mutation', route=route, mutation=mname, got=raw(fresh)):
                return False
        return True
    return h


def h_tobitarray(ca, n, source):
    """a bitarray obtained with tobitarray() is independent of the bitstring (both directions)"""
    def h(K):
        import bitstring
        env.clear_caches()
        CA = classes()[ca]
        if source == 'symbolic':
            x = K.bits('x', n)
            A = mk(K, CA, x)
        else:
            A = CA('0b0110')
        a0 = _content(A)
        ba = A.tobitarray()
        b0 = ba.copy()
        if len(ba):
            ba.invert()
        ba.append(1)
        if not K.check(same(_content(A), a0), 'mutating the bitarray returned by tobitarray() changed the bitstring', cls=ca, before=a0, after=_content(A)):
            return False
        if source != 'symbolic':
            fresh = bitstring.Bits('0b0110')
            if not K.check(same(raw(fresh), O.from01('0110')), 'mutating the bitarray returned by tobitarray() corrupted the string-parse cache', got=raw(fresh)):
                return False
        if is_mutable(CA):
            ba2 = A.tobitarray()
            c0 = ba2.copy()
            A.invert() if len(A) else A.append('0b1')
            A.append('0b1')
            return K.check(same(ba2, c0), 'mutating the bitstring changed a bitarray obtained earlier with tobitarray()')
        return True
    return h


def h_buffer_source(cb, kind, n):
    """B built from a bytearray / memoryview / array.array / bitarray: later mutation of the source does not reach B"""
    def h(K):
        import bitstring
        import bitarray
        CB = classes()[cb]
        if kind == 'bitarray':
            src = K.bits('x', n)
            B = CB(src)
            b0 = _content(B)
            if len(src):
                src.invert()
            src.append(1)
            if not K.check(same(_content(B), b0), 'mutating the source bitarray changed the bitstring built from it'):
                return False
            if is_mutable(CB):
                s0 = src.copy()
                B.invert() if len(B) else B.append('0b1')
                return K.check(same(src, s0), 'mutating the bitstring changed the bitarray it was built from')
            return True
        data = bytes([K.conc(K.int('b0', 0, 255)), 0x3c])
        if kind == 'bytearray':
            src = bytearray(data)
            B = CB(src)
            mut = lambda: src.__setitem__(0, src[0] ^ 0xff)   # noqa: E731
        elif kind == 'memoryview':
            backing = bytearray(data)
            src = memoryview(backing)
            B = CB(src)
            mut = lambda: backing.__setitem__(0, backing[0] ^ 0xff)   # noqa: E731
        elif kind == 'bytes-kw':
            src = bytearray(data)
            B = CB(bytes=src)
            mut = lambda: src.__setitem__(1, 0)   # noqa: E731
        else:
            src = array.array('B', data)
            B = CB(src)
            mut = lambda: src.__setitem__(0, src[0] ^ 0xff)   # noqa: E731
        b0 = _content(B)
        mut()
        return K.check(same(_content(B), b0), 'mutating the source buffer changed the bitstring built from it', kind=kind)
    return h


def h_immutable_api(ca, n):
    """immutable classes expose no operation that alters their own content: every public method is called once"""
    def h(K):
        import bitstring
        CA = classes()[ca]
        x = K.bits('x', n)
        pos = K.int('pos', 0, n) if is_stream(CA) else None
        A = mk(K, CA, x, pos)
        for nm in ('append', 'prepend', 'insert', 'overwrite', 'invert', 'set', 'reverse', 'clear', 'replace', 'rol', 'ror', 'byteswap', '__setitem__', '__delitem__', '__iadd__', '__imul__',
                   '__ilshift__', '__irshift__', '__iand__', '__ior__', '__ixor__'):
            if hasattr(CA, nm):
                return K.fail('immutable class exposes a mutating method', method=nm)
        calls = {
            'iadd': lambda: A.__add__('0b1'), 'mul': lambda: A * 2, 'find': lambda: A.find('0b1'), 'unpack': lambda: A.unpack('bin'), 'tobytes': lambda: A.tobytes(), 'cut': lambda: list(A.cut(2)),
            'count': lambda: A.count(1), 'bits': lambda: A.bits, 'bin': lambda: A.bin, 'tobitarray-mutate': lambda: A.tobitarray().invert() if n else None,
            'setattr-uint': lambda: set_attr(A, 'uint', 0), 'setattr-bin': lambda: set_attr(A, 'bin', '1'), 'hash': lambda: A.__hash__(),
        }
        if is_stream(CA):
            calls['read'] = lambda: A.read(1)
            calls['readlist'] = lambda: A.readlist('bin')
        for nm, f in calls.items():
            call(f)
            if not K.check(same(raw(A), x), 'a public operation altered the content of an immutable object', op=nm, after=raw(A)):
                return False
        return True
    return h


# ------------------------------------------------------------------ independently built twins (same constructor arguments)
def _ctors():
    """name -> function(cls) -> object built from concrete arguments (so that any memoisation keyed on them is hit)"""
    import bitstring
    B = bitstring

    def prop(name, value, **kw):
        def f(cls):
            M = cls if is_mutable(cls) else B.BitArray
            o = M(**kw) if kw else M()
            set_attr(o, name, value)
            return o if M is cls else cls(o)
        return f
    C = {
        'ue=3': lambda c: c(ue=3), 'se=-2': lambda c: c(se=-2), 'uie=5': lambda c: c(uie=5), 'sie=-1': lambda c: c(sie=-1),
        'uint=5,length=4': lambda c: c(uint=5, length=4), 'int=-3,length=4': lambda c: c(int=-3, length=4), 'float=1.5,length=32': lambda c: c(float=1.5, length=32),
        'hex=5a': lambda c: c(hex='5a'), 'bin=0110': lambda c: c(bin='0110'), 'oct=17': lambda c: c(oct='17'), 'bytes=Z': lambda c: c(bytes=b'Z'), 'bool=True': lambda c: c(bool=True),
        'bfloat=1.5': lambda c: c(bfloat=1.5), 'uintle=258,length=16': lambda c: c(uintle=258, length=16), 'e4m3mxfp=1.5': lambda c: c(e4m3mxfp=1.5), 'p4binary=1.5': lambda c: c(p4binary=1.5),
        'int-zeros(4)': lambda c: c(4), "str 'ue=3'": lambda c: c('ue=3'), "str 'uint:8=90'": lambda c: c('uint:8=90'), "str '0x5a, ue=3'": lambda c: c('0x5a, ue=3'),
        "fromstring 'se=-2'": lambda c: c.fromstring('se=-2'), "pack('ue', 3)": lambda c: c(B.pack('ue', 3)), "pack('uint:8', 90)": lambda c: c(B.pack('uint:8', 90)),
        "pack('ue=3')": lambda c: c(B.pack('ue=3')), "Dtype('ue').build(3)": lambda c: c(B.Dtype('ue').build(3)), "Dtype('uint8').build(90)": lambda c: c(B.Dtype('uint8').build(90)),
        "Dtype('hex2').build('5a')": lambda c: c(B.Dtype('hex2').build('5a')),
        'prop ue=3': prop('ue', 3), 'prop uie=5': prop('uie', 5), 'prop se=-2': prop('se', -2), 'prop uint=5 (4 bits)': prop('uint', 5, length=4), 'prop hex=5a': prop('hex', '5a'),
        'prop float=1.5 (32 bits)': prop('float', 1.5, length=32), 'prop bytes': prop('bytes', b'Z'),
        "Array('uint8', [90]).data": lambda c: c(B.Array('uint8', [90]).data), 'bytes-auto': lambda c: c(b'Z'), 'bool-list': lambda c: c([1, 0, 1]),
    }
    return C


def h_twins(ctor):
    """two objects built independently from the same arguments (possibly of different classes) are independent; a third built afterwards sees the original value"""
    def h(K):
        env.clear_caches()
        make = _ctors()[ctor]
        ca, cb = K.choice('classes', [(a, b) for a in CLS for b in CLS if a in ('BitArray', 'BitStream') or b in ('BitArray', 'BitStream')])
        mname = K.choice('mutation', ['invert', 'append', 'setitem', 'clear', 'overwrite'])
        CA, CB = classes()[ca], classes()[cb]
        ra, rb = call(lambda: make(CA)), call(lambda: make(CB))
        if not (ra.ok and rb.ok):
            return True if (ra.ok == rb.ok) else K.fail('constructor works for one class and not for the other', ctor=ctor, a=ra.excname, b=rb.excname)
        A, Bo = ra.value, rb.value
        a0, b0 = _content(A), _content(Bo)
        if not K.check(same(a0, b0), 'the same arguments give different bits for two classes', ctor=ctor):
            return False
        if is_mutable(CA):
            m = call(lambda: _mutate(K, A, mname))
            if m.ok and not K.check(same(_content(Bo), b0), 'mutating one object changed another that was built independently from the same arguments', ctor=ctor, mutated=ca, other=cb,
                                    mutation=mname, before=b0, after=_content(Bo)):
                return False
        a1 = _content(A)
        if is_mutable(CB):
            m = call(lambda: _mutate(K, Bo, mname))
            if m.ok and not K.check(same(_content(A), a1), 'mutating one object changed another that was built independently from the same arguments', ctor=ctor, mutated=cb, other=ca,
                                    mutation=mname, before=a1, after=_content(A)):
                return False
        import bitstring
        fresh = call(lambda: make(bitstring.Bits))
        return K.check(fresh.ok and same(_content(fresh.value), a0), 'an object built later from the same arguments no longer has the original value (a shared cached value was mutated)',
                       ctor=ctor, mutation=mname, got=_content(fresh.value) if fresh.ok else None, expected=a0)
    return h


def conditions(tier):
    q = tier == 'quick'
    conds = []
    T = 200 if q else 450

    def add(cid, fn, bounds, **params):
        conds.append(Cond(cid, fn, bounds, D, params, timeout=T, setup=env.live_caches))

    routes = list(_routes())
    muts_q = ['invert', 'append', 'clear']
    for ca in CLS:
        for route in routes:
            if 'literal' in route:
                continue
            for cb in (['BitArray'] if q else ['BitArray', 'BitStream', 'Bits']):
                if not q and cb == 'Bits' and route not in ('auto', 'bits-kw', 'add-right', 'join'):
                    continue
                for mname in (['invert'] if q else list(MUTS)):
                    if not q and mname not in muts_q and route not in ('auto', 'bits-kw', 'copy()', 'slice-all', 'prop-assign-bits', 'bits-property', 'add-empty'):
                        continue
                    for n in ([N] if q else [0, 1, N, 9]):
                        add(f'C04.pair[{ca}->{cb},{route},{mname},n={n}]', h_pair(ca, cb, route, mname, n, 'symbolic'),
                            f'all {n}-bit contents, all stream positions; route {route}; mutation {mname}', route=route, mutation=mname, source='symbolic')
        for how in ('slice', 'stepslice', 'read', 'add', 'cut', 'unpack'):
            for route in (['auto', 'copy()', 'copy.copy', 'and-self', 'or-self', 'bits-kw', 'slice-all', 'add-empty'] if q else routes):
                if 'literal' in route:
                    continue
                for cb in (['Bits', 'BitArray'] if q else ['Bits', 'BitArray', 'ConstBitStream', 'BitStream']):
                    if q and cb == 'BitArray' and route not in ('auto', 'bits-kw'):
                        continue
                    add(f'C04.pair[{ca}->{cb},{route},invert,n={N},source={how}]', h_pair(ca, cb, route, 'invert', N, 'derived:' + how),
                        f'all {N + 3}-bit contents; the source is itself a {how} result; route {route}; mutation invert', route=route, mutation='invert', source=how)
        for source in ('string', 'fromstring', 'cached-twice'):
            for route in (['auto', 'bits-kw', 'copy()', 'slice-all', 'prop-assign-bits', 'tobitarray-back', 'add-empty', 'empty-plus', 'radd-empty', 'empty-plus-literal', 'literal-plus-empty', 'short-plus-literal'] if q else routes):
                if 'literal' in route and source != 'string':
                    continue
                for mname in (['invert', 'append'] if q else ['invert', 'append', 'clear', 'overwrite', 'setitem']):
                    add(f'C04.cache[{ca},{source},{route},{mname}]', h_pair(ca, 'BitArray', route, mname, 4, source),
                        f'object built from a concrete string through the live parse cache ({source}); route {route}; mutation {mname}', route=route, mutation=mname, source=source)
        for source in ('symbolic', 'string'):
            add(f'C04.tobitarray[{ca},{source}]', h_tobitarray(ca, N, source), f'all {N}-bit contents / cached string; mutate the bitarray, then the bitstring', source=source)
        for kind in ('bitarray', 'bytearray', 'memoryview', 'bytes-kw', 'array'):
            add(f'C04.buffer-source[{ca},{kind}]', h_buffer_source(ca, kind, N), 'source buffer mutated after construction')
    for ctor in _ctors_names():
        add(f'C04.twins[{ctor}]', h_twins(ctor), 'concrete constructor arguments; all ordered class pairs with a mutable side x 5 mutations; live caches', ctor=ctor)
    for ca in ('Bits', 'ConstBitStream'):
        for n in ([N] if q else [0, 1, N, 8]):
            add(f'C04.immutable-api[{ca},n={n}]', h_immutable_api(ca, n), f'all {n}-bit contents; every public method once')
    return conds


def _ctors_names():
    return ['ue=3', 'se=-2', 'uie=5', 'sie=-1', 'uint=5,length=4', 'int=-3,length=4', 'float=1.5,length=32', 'hex=5a', 'bin=0110', 'oct=17', 'bytes=Z', 'bool=True', 'bfloat=1.5',
            'uintle=258,length=16', 'e4m3mxfp=1.5', 'p4binary=1.5', 'int-zeros(4)', "str 'ue=3'", "str 'uint:8=90'", "str '0x5a, ue=3'", "fromstring 'se=-2'", "pack('ue', 3)",
            "pack('uint:8', 90)", "pack('ue=3')", "Dtype('ue').build(3)", "Dtype('uint8').build(90)", "Dtype('hex2').build('5a')", 'prop ue=3', 'prop uie=5', 'prop se=-2',
            'prop uint=5 (4 bits)', 'prop hex=5a', 'prop float=1.5 (32 bits)', 'prop bytes', "Array('uint8', [90]).data", 'bytes-auto', 'bool-list']
