"""Helpers shared by the harness modules."""
from __future__ import annotations

from kit import oracle as O
from kit.state import mk, raw, call, classes, is_stream, is_mutable, same

CLS = ['Bits', 'BitArray', 'ConstBitStream', 'BitStream']


def _obj(K, cname, n, name='x'):
    cls = classes()[cname]
    x = K.bits(name, n)
    pos = K.int('pos_' + name, 0, n) if is_stream(cls) else None
    return cls, x, pos, mk(K, cls, x, pos)


def _unchanged(K, s, x, pos):
    ok = same(raw(s), x)
    if pos is not None:
        ok = ok and s._pos == pos
    return ok


def _operand(K, kind, m):
    """returns (python operand, its bits as bitarray, class or None); K.opos = its stream position or None"""
    K.opos = None
    if kind in CLS:
        cls = classes()[kind]
        y = K.bits('y', m)
        pos = K.int('pos_y', 0, m) if is_stream(cls) else None
        K.opos = pos
        return mk(K, cls, y, pos), y, cls
    if kind in ('bytes', 'bytearray'):
        assert m % 8 == 0
        b = K.bytes('yb', m // 8)
        bits = O.empty()
        bits.frombytes(b)
        return (bytearray(b) if kind == 'bytearray' else b), bits, None
    if kind == 'bools':
        y = K.bits('y', m)
        lst = [bool(y[j]) if not K.symbolic else (y[j] == 1) for j in range(m)]
        return lst, y, None
    if kind.startswith('str:'):
        tok = kind[4:]
        return tok, O.from01(_tokbits(tok)), None
    raise ValueError(kind)


def _tokbits(tok):
    # concrete catalogue of token strings with their bits, written out by hand
    return {'0b1': '1', '0b011': '011', '0x5': '0101', '0o3': '011', '0xa5, 0b1': '101001011', '': '',
            'uint:3=5': '101', 'int:4=-2': '1110', 'bool=True': '1', '0b1, 0b0, 0b1': '101'}[tok]




def _operand_unchanged(K, other, y, ocls):
    if ocls is None:
        return True
    ok = same(raw(other), y)
    if K.opos is not None:
        ok = ok and other._pos == K.opos
    return ok
