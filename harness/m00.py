"""M00 - validation of the model's *symbolic* branch against its concrete branch.

kit.modelcheck validates the concrete branch of the sbx bitarray model against the real C
extension.  This module closes the gap: every model entry point is run on symbolic content and
symbolic arguments, then the same inputs are concretised (the solver enumerates every content and
argument value inside the bound) and the operation is repeated on the concrete branch; result,
resulting content and exception class must agree.  Not a property check - a harness self-test.
"""
from __future__ import annotations

from kit.engine import Cond
from kit.state import call, same


def _conc_bits(K, x):
    """concrete twin of a (symbolic) model bitarray; forks over every content"""
    import bitarray
    if not K.symbolic:
        return x.copy()
    from crosshair.tracers import NoTracing
    from crosshair.core import realize
    from crosshair.libimpl.builtinslib import SymbolicInt
    import z3
    n = len(x)
    if n == 0:
        return bitarray.bitarray()
    with NoTracing():
        v = x._v
        if isinstance(v, int):
            return bitarray.bitarray._mk(n, v)
        sv = SymbolicInt(z3.BV2Int(v))
    c = realize(sv)
    return bitarray.bitarray._mk(n, int(c))


def _same_result(K, a, b):
    ta, tb = type(a).__name__, type(b).__name__
    if ta == 'bitarray' or tb == 'bitarray':
        return ta == tb and same(a, b)
    if isinstance(a, (list, tuple)):
        if len(a) != len(b):
            return False
        ok = True
        for u, w in zip(a, b):
            ok = ok and _same_result(K, u, w)
        return ok
    return a == b


def _differential(K, x, f, args):
    """f(bitarray, *args) -> result; run symbolically, then concretely, compare result + final content"""
    xs = x.copy()
    r1 = call(lambda: f(xs, *args))
    xc = _conc_bits(K, x)
    cargs = [K.conc(a) if not hasattr(a, '_n') else _conc_bits(K, a) for a in args]
    xc2 = xc.copy()
    r2 = call(lambda: f(xc2, *cargs))
    if r1.ok != r2.ok:
        return K.fail('symbolic and concrete branch disagree on raising', sym=r1.excname, conc=r2.excname)
    if not r1.ok:
        return K.check(type(r1.exc) is type(r2.exc), 'exception classes differ', sym=r1.excname, conc=r2.excname)
    v1 = list(r1.value) if hasattr(r1.value, '__next__') else r1.value
    v2 = list(r2.value) if hasattr(r2.value, '__next__') else r2.value
    return K.check(_same_result(K, v1, v2) and same(xs, xc2), 'symbolic and concrete branch disagree', sym=v1, conc=v2, content_sym=xs, content_conc=xc2)


def h_op(n, opname, m=0, light=False):
    def h(K):
        import bitarray
        import bitarray.util as U
        x = K.bits('x', n)
        lim = n + 1 if light else n + 2
        if opname == 'getitem':
            return _differential(K, x, lambda a, i: a[i], [K.int('i', -lim, lim)])
        if opname == 'getslice':
            return _differential(K, x, lambda a, s, e, st: a[s:e:st], [K.opt_int('s', -lim, lim), K.opt_int('e', -lim, lim), K.opt_int('st', -lim, lim)])
        if opname == 'setitem':
            return _differential(K, x, lambda a, i, v: a.__setitem__(i, v), [K.int('i', -lim, lim), K.int('v', -1, 2)])
        if opname == 'setslice':
            y = K.bits('y', m)
            return _differential(K, x, lambda a, s, e, st, y_: a.__setitem__(slice(s, e, st), y_), [K.opt_int('s', -lim, lim), K.opt_int('e', -lim, lim), K.opt_int('st', -2, 2) if light else K.opt_int('st', -lim, lim), y])
        if opname == 'setslice-int':
            return _differential(K, x, lambda a, s, e, st, v: a.__setitem__(slice(s, e, st), v), [K.opt_int('s', -lim, lim), K.opt_int('e', -lim, lim), K.opt_int('st', -2, 2) if light else K.opt_int('st', -lim, lim), K.int('v', 0, 1) if light else K.int('v', -1, 2)])
        if opname == 'delitem':
            return _differential(K, x, lambda a, i: a.__delitem__(i), [K.int('i', -lim, lim)])
        if opname == 'delslice':
            return _differential(K, x, lambda a, s, e, st: a.__delitem__(slice(s, e, st)), [K.opt_int('s', -lim, lim), K.opt_int('e', -lim, lim), K.opt_int('st', -lim, lim)])
        if opname == 'invert':
            return _differential(K, x, lambda a, i: a.invert(i), [K.opt_int('i', -lim, lim)])
        if opname == 'insert':
            return _differential(K, x, lambda a, i, v: a.insert(i, v), [K.int('i', -lim, lim), K.int('v', 0, 1)])
        if opname in ('find', 'rfind', 'search', 'rsearch'):
            y = K.bits('y', m)
            right = opname.startswith('r')
            if 'find' in opname:
                return _differential(K, x, lambda a, s, e, y_: a.find(y_, s, e, right=right), [K.int('s', -lim, lim), K.int('e', -lim, lim), y])
            return _differential(K, x, lambda a, s, e, y_: list(a.search(y_, s, e, right=right)), [K.int('s', -lim, lim), K.int('e', -lim, lim), y])
        if opname == 'unary':
            return _differential(K, x, lambda a: [a.count(1), a.count(0), a.any(), a.all(), a.tobytes(), a.to01(), list(a), ~a, a.copy(),
                                                  U.ba2int(a) if n else None, U.ba2int(a, signed=True) if n else None,
                                                  U.ba2hex(a) if n % 4 == 0 else None, U.ba2base(8, a) if n % 3 == 0 else None], [])
        if opname == 'unary-little':
            import bitarray
            def f(a):
                le = bitarray.bitarray(a, endian='little')
                e = bitarray.bitarray(endian='little')
                e.frombytes(le.tobytes())
                return [le.endian, le.tobytes(), le.to01(), le.copy().endian, le[1:].endian, (~le).tobytes(), U.ba2int(le) if n else None, U.ba2int(le, signed=True) if n else None,
                        U.ba2hex(le) if n % 4 == 0 else None, U.ba2base(8, le) if n % 3 == 0 else None, e, bitarray.bitarray(le, endian='big').tobytes(), le == a]
            return _differential(K, x, f, [])
        if opname == 'mutate-all':
            def f(a):
                b = a.copy()
                b.reverse()
                c = a.copy()
                c.invert()
                d = a.copy()
                d.setall(1)
                e = a.copy()
                e.frombytes(a.tobytes())
                return [b, c, d, e]
            return _differential(K, x, f, [])
        if opname == 'binary':
            y = K.bits('y', m)
            return _differential(K, x, lambda a, y_: [a + y_, a == y_, a != y_] + ([a & y_, a | y_, a ^ y_] if len(a) == len(y_) else []), [y])
        if opname == 'int2ba':
            signed = K.bool('signed')
            return _differential(K, x, lambda a, v: U.int2ba(v, length=max(n, 1), signed=signed), [K.int('v', -(1 << n) - 2, (1 << n) + 2)])
        if opname == 'int-roundtrip':
            # the provenance shortcuts of the symbolic branch (ba2int(int2ba(v)) -> v, also after concatenation and slicing)
            signed = K.bool('signed')
            nn = max(n, 1)

            def f(a, v):
                b = U.int2ba(v, length=nn, signed=signed)
                c = bitarray.bitarray('01') + b + a
                d = c[2:2 + nn]
                return [U.ba2int(b, signed=signed), U.ba2int(d, signed=signed), U.ba2int(b, signed=not signed), U.int2ba(U.ba2int(a, signed=signed), length=len(a), signed=signed) if len(a) else None]
            lo, hi = (-(1 << (nn - 1)), (1 << (nn - 1)) - 1) if signed else (0, (1 << nn) - 1)
            return _differential(K, x, f, [K.int('v', lo, hi)])
        if opname == 'hex2ba':
            t = K.chars('t', m, 32, 127)
            r1 = call(lambda: (U.hex2ba(t), U.base2ba(8, t), bitarray.bitarray(t)))
            tc = K.conc(t)
            r2 = call(lambda: (U.hex2ba(tc), U.base2ba(8, tc), bitarray.bitarray(tc)))
            # the three parsers fail independently: compare one by one
            for f in (U.hex2ba, lambda z: U.base2ba(8, z), bitarray.bitarray):
                a1, a2 = call(lambda: f(t)), call(lambda: f(tc))
                if a1.ok != a2.ok:
                    return K.fail('text parser: symbolic and concrete branch disagree on raising', text=tc)
                if a1.ok and not same(a1.value, a2.value):
                    return K.fail('text parser: symbolic and concrete results differ', text=tc)
            return True
        raise ValueError(opname)
    return h


def conditions(tier):
    q = tier == 'quick'
    conds = []
    D = ['bitarray:bitarray.__getitem__']

    def add(name, n, m=0, T=300):
        conds.append(Cond(f'M00.{name}[n={n},m={m}]', h_op(n, name, m, q), f'all {n}-bit contents (and {m}-bit operands) x all arguments within +-{n + 1 if q else n + 2}', [], {'n': n, 'm': m}, timeout=T))
    SL = ('getslice', 'setslice-int', 'delslice', 'setslice')
    for n in ([0, 3] if q else [0, 1, 2, 3, 4]):
        for op in ['getitem', 'getslice', 'setitem', 'setslice-int', 'delitem', 'delslice', 'invert', 'insert', 'unary', 'mutate-all']:
            add(op, 2 if (q and n == 3 and op in SL) else n, T=300 if q else 3000)
        for m in ([0, 2] if q else [0, 1, 2]):
            add('setslice', 2 if (q and n == 3) else n, m, T=300 if q else 3000)
            add('binary', n, m)
        if n not in (0, 1, 2):
            add('binary', n, n)
        for m in ([1] if q else [1, 2]):
            for op in ['find', 'rfind', 'search', 'rsearch']:
                add(op, n, m)
        add('int2ba', n)
        add('int-roundtrip', n)
    add('unary', 8)
    for n in ([3, 8] if q else [0, 1, 3, 4, 8, 9, 12]):
        add('unary-little', n)
    for m in ([1] if q else [0, 1, 2]):
        add('hex2ba', 0, m)
    return conds
