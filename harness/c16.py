"""C16 - bit-wise operators and shifts are per-bit boolean functions with fixed length."""
from __future__ import annotations

import operator

from kit.engine import Cond
from kit import oracle as O
from kit.state import mk, raw, call, classes, is_stream, is_mutable, same
from harness.common import CLS, _obj, _unchanged, _operand, _operand_unchanged

ASSUMPTIONS = [
    "integer-model agreement is asserted on the bit-vector side (x & y etc. on z3 bit-vectors of the operands' widths), which is the unsigned-integer model masked to len bits",
    "reflected forms with a non-bitstring left operand are driven through __rand__/__ror__/__rxor__ directly (Python's operator dispatch is trusted)",
]

D_BIN = ['bitstring.bits:Bits.__and__', 'bitstring.bits:Bits.__or__', 'bitstring.bits:Bits.__xor__', 'bitstring.bits:Bits.__rand__',
         'bitstring.bits:Bits.__ror__', 'bitstring.bits:Bits.__rxor__', 'bitstring.bits:Bits.__invert__', 'bitstring.bits:Bits._invert_all',
         'bitstring.bitstream:ConstBitStream.__and__', 'bitstring.bitstream:ConstBitStream.__or__', 'bitstring.bitstream:ConstBitStream.__xor__',
         'bitstring.bitstore:BitStore.__and__', 'bitstring.bitstore:BitStore.__or__', 'bitstring.bitstore:BitStore.__xor__',
         'bitstring.bitstore:BitStore.invert_msb0', 'bitstring.bits:Bits._create_from_bitstype', 'bitstring.bits:Bits.copy',
         'bitstring.bitarray_:BitArray.copy', 'bitstring.bitarray_:BitArray.__copy__', 'bitstring.bitstream:BitStream.__copy__',
         'bitstring.bitstream:ConstBitStream.__copy__']
D_IBIN = ['bitstring.bitarray_:BitArray.__iand__', 'bitstring.bitarray_:BitArray.__ior__', 'bitstring.bitarray_:BitArray.__ixor__',
          'bitstring.bitstore:BitStore.__iand__', 'bitstring.bitstore:BitStore.__ior__', 'bitstring.bitstore:BitStore.__ixor__']
D_SH = ['bitstring.bits:Bits.__lshift__', 'bitstring.bits:Bits.__rshift__', 'bitstring.bits:Bits._absolute_slice', 'bitstring.bits:Bits._addright',
        'bitstring.bitstore:BitStore.getslice_msb0']
D_ISH = ['bitstring.bitarray_:BitArray.__ilshift__', 'bitstring.bitarray_:BitArray.__irshift__', 'bitstring.bits:Bits._ilshift',
         'bitstring.bits:Bits._irshift', 'bitstring.bits:Bits._truncateleft', 'bitstring.bits:Bits._truncateright', 'bitstring.bits:Bits._addleft']

OPS = {'and': operator.and_, 'or': operator.or_, 'xor': operator.xor}
IOPS = {'and': operator.iand, 'or': operator.ior, 'xor': operator.ixor}
ROPS = {'and': '__rand__', 'or': '__ror__', 'xor': '__rxor__'}


def _bitop(op, a, b):
    return OPS[op](a, b)


def h_binop(lname, rkind, n, m, op, reflected=False):
    def h(K):
        cls, x, pos, s = _obj(K, lname, n)
        other, y, ocls = _operand(K, rkind, m)
        if reflected:
            r = call(lambda: getattr(s, ROPS[op])(other))
        else:
            r = call(lambda: OPS[op](s, other))
        if n != m:
            ok = r.raised(ValueError)
            ok = ok and _unchanged(K, s, x, pos)
            return K.check(ok, 'unequal lengths must raise ValueError and change nothing', exc=r.excname)
        if not r.ok:
            return K.fail('bit-wise operator raised', exc=r.excname)
        t = r.value
        if type(t) is not cls:
            return K.fail('result class is not the class of the bitstring operand', got=type(t).__name__)
        if is_stream(cls) and t._pos != 0:
            return K.fail('result pos not 0', got=t._pos)
        exp = _bitop(op, x, y) if n else O.empty()
        ok = same(raw(t), exp) and _unchanged(K, s, x, pos)
        ok = ok and _operand_unchanged(K, other, y, ocls)
        return K.check(ok, 'per-bit result / operands unchanged', got=raw(t), expected=exp)
    return h


def h_self(cname, n, op):
    """s op s with both operands the same object"""
    def h(K):
        cls, x, pos, s = _obj(K, cname, n)
        r = call(lambda: OPS[op](s, s))
        if not r.ok:
            return K.fail('s op s raised', exc=r.excname)
        t = r.value
        if type(t) is not cls:
            return K.fail('result class', got=type(t).__name__)
        if is_stream(cls) and t._pos != 0:
            return K.fail('s op s: result pos not 0', got=t._pos, op=op)
        exp = O.zeros(n) if op == 'xor' else x
        if not K.check(same(raw(t), exp), 's op s content', got=raw(t), expected=exp):
            return False
        if not K.check(_unchanged(K, s, x, pos), 's op s modified its operand (content or stream position)', pos_before=pos, pos_after=getattr(s, '_pos', None)):
            return False
        if is_mutable(cls) and n > 0:
            # the result must be independent of the operand
            t.invert()
            return K.check(_unchanged(K, s, x, pos), 'result of s op s shares storage with s')
        return True
    return h


def h_invert(cname, n):
    def h(K):
        import bitstring
        cls, x, pos, s = _obj(K, cname, n)
        r = call(lambda: ~s)
        if n == 0:
            return K.check((not r.ok) and isinstance(r.exc, bitstring.Error), '~ of an empty bitstring must raise bitstring.Error', exc=r.excname)
        if not r.ok:
            return K.fail('~ raised', exc=r.excname)
        t = r.value
        if type(t) is not cls:
            return K.fail('~ result class', got=type(t).__name__)
        if is_stream(cls) and t._pos != 0:
            return K.fail('~ result pos not 0', got=t._pos)
        exp = ~x
        if not K.check(same(raw(t), exp) and _unchanged(K, s, x, pos), '~ content', got=raw(t), expected=exp):
            return False
        tt = call(lambda: ~t)
        return K.check(tt.ok and same(raw(tt.value), x), '~~s == s')
    return h


def h_demorgan(cname, n):
    def h(K):
        cls, x, pos, s = _obj(K, cname, n)
        other, y, _ = _operand(K, cname, n)
        r1 = call(lambda: ~(s & other))
        r2 = call(lambda: (~s) | (~other))
        r3 = call(lambda: ~(s | other))
        r4 = call(lambda: (~s) & (~other))
        if not (r1.ok and r2.ok and r3.ok and r4.ok):
            return K.fail('operator raised')
        return K.check(same(raw(r1.value), raw(r2.value)) and same(raw(r3.value), raw(r4.value))
                       and (r1.value == r2.value) and (r3.value == r4.value), 'De Morgan')
    return h


def _shift_expected(K, x, n, k, left):
    kk = K.conc(k if k < n else n)
    if left:
        return O.ref_concat(x[kk:], O.zeros(kk))
    return O.ref_concat(O.zeros(kk), x[:n - kk])


def h_shift(cname, n, left, inplace):
    def h(K):
        cls, x, pos, s = _obj(K, cname, n)
        k = K.int('k')
        if inplace:
            def f():
                nonlocal s
                s0 = s
                if left:
                    s <<= k
                else:
                    s >>= k
                return s is s0
        else:
            def f():
                return (s << k) if left else (s >> k)
        r = call(f)
        if k < 0 or n == 0:
            ok = r.raised(ValueError) and _unchanged(K, s, x, pos)
            return K.check(ok, 'negative count / empty bitstring must raise ValueError and change nothing', exc=r.excname)
        if not r.ok:
            return K.fail('shift raised', exc=r.excname)
        exp = _shift_expected(K, x, n, k, left)
        if inplace:
            if r.value is not True:
                return K.fail('in-place shift did not return self')
            ok = same(raw(s), exp)
            if pos is not None:
                ok = ok and s._pos == pos
            return K.check(ok, 'in-place shift content (length kept, zero fill) / pos', got=raw(s), expected=exp)
        t = r.value
        if type(t) is not cls:
            return K.fail('shift result class', got=type(t).__name__)
        if is_stream(cls) and t._pos != 0:
            return K.fail('shift result pos not 0', got=t._pos)
        return K.check(same(raw(t), exp) and _unchanged(K, s, x, pos), 'shift content (length kept, zero fill)', got=raw(t), expected=exp)
    return h


def h_ibinop(lname, rkind, n, m, op):
    def h(K):
        cls, x, pos, s = _obj(K, lname, n)
        if rkind == 'self':
            other, y, ocls = s, x, None
        else:
            other, y, ocls = _operand(K, rkind, m)
        s0 = s

        def f():
            nonlocal s
            s = IOPS[op](s, other)
            return s is s0
        r = call(f)
        if n != m:
            return K.check(r.raised(ValueError) and _unchanged(K, s0, x, pos), 'unequal lengths must raise ValueError and change nothing', exc=r.excname)
        if not r.ok:
            return K.fail('in-place operator raised', exc=r.excname)
        if r.value is not True:
            return K.fail('in-place operator did not return self')
        exp = _bitop(op, x, y) if n else O.empty()
        ok = same(raw(s), exp)
        if pos is not None:
            ok = ok and s._pos == pos
        ok = ok and _operand_unchanged(K, other, y, ocls)
        return K.check(ok, 'in-place per-bit result / right operand unchanged / pos', got=raw(s), expected=exp)
    return h


def h_shift_bool(cname, n):
    """bool is a subclass of int: shifting by True / False is shifting by 1 / 0, for all four shift forms"""
    def h(K):
        import bitstring
        cls = classes()[cname]
        x = K.bits('x', n)
        b = K.bool('count')
        k = 1 if b else 0
        forms = ['lshift', 'rshift'] + (['ilshift', 'irshift'] if cname in ('BitArray', 'BitStream') else [])
        form = K.choice('form', forms)
        s = mk(K, cls, x, 0 if cname in ('ConstBitStream', 'BitStream') else None)
        cnt = True if b else False
        r = call({'lshift': lambda: s << cnt, 'rshift': lambda: s >> cnt, 'ilshift': lambda: s.__ilshift__(cnt), 'irshift': lambda: s.__irshift__(cnt)}[form])
        if not r.ok:
            return K.fail('shift by a bool count raised', form=form, count=cnt, exc=r.excname)
        exp = O.ref_concat(x[k:], O.zeros(k)) if 'lshift' in form else O.ref_concat(O.zeros(k), x[:n - k])
        return K.check(same(raw(r.value), exp), 'shift by True / False must equal the shift by 1 / 0', form=form, got=raw(r.value), expected=exp)
    return h


def lsb0_mode(h):
    """the same harness with options.lsb0 set: none of these operators takes a position, so the same sequence-level oracle applies"""
    def g(K):
        import bitstring
        bitstring.options.lsb0 = True
        try:
            return h(K)
        finally:
            bitstring.options.lsb0 = False
    return g


def conditions(tier):
    q = tier == 'quick'
    conds = []
    lens = [0, 1, 2, 8, 9] if q else [0, 1, 2, 3, 7, 8, 9, 16, 63, 64, 65, 128]
    T = 120
    for op in OPS:
        for l in CLS:
            for r in (CLS if not q else [l, 'Bits' if l != 'Bits' else 'BitStream']):
                for n in lens:
                    conds.append(Cond(f'C16.{op}[{l},{r},n={n}]', h_binop(l, r, n, n, op), f'all contents of two {n}-bit operands, all stream positions',
                                      D_BIN, {'n': n}, timeout=T))
                for (n, m) in ([(0, 1), (8, 9), (2, 1)] if q else [(0, 1), (1, 0), (8, 9), (9, 8), (2, 1), (64, 65)]):
                    conds.append(Cond(f'C16.{op}[{l},{r},n={n},m={m}]', h_binop(l, r, n, m, op), f'all contents, unequal lengths {n} and {m}',
                                      D_BIN, {'n': n, 'm': m}, timeout=T))
            for n in ([8] if q else [8, 16]):
                for refl in (False, True):
                    conds.append(Cond(f"C16.{op}[{l}{'<-' if refl else ','}bytes,n={n}]", h_binop(l, 'bytes', n, n, op, refl),
                                      f'all {n}-bit contents x all {n // 8}-byte right operands', D_BIN, {'n': n}, timeout=T))
            for tok, m in (('0x5', 4), ('0b011', 3)):
                for refl in (False, True):
                    for n in (m, m + 1):
                        conds.append(Cond(f"C16.{op}[{l}{'<-' if refl else ','}str:{tok},n={n}]", h_binop(l, 'str:' + tok, n, m, op, refl),
                                          f'all {n}-bit contents; token string {tok!r}', D_BIN, {'n': n}, timeout=T))
            for n in ([0, 1, 8] if q else [0, 1, 2, 8, 9, 64, 65]):
                conds.append(Cond(f'C16.{op}-self[{l},n={n}]', h_self(l, n, op), f'all {n}-bit contents, both operands the same object', D_BIN, {'n': n}, timeout=T))
        for l in ('BitArray', 'BitStream'):
            for r in (['Bits', l, 'self'] if q else CLS + ['self']):
                for n in ([0, 1, 8, 9] if q else lens):
                    conds.append(Cond(f'C16.i{op}[{l},{r},n={n}]', h_ibinop(l, r, n, n, op), f'all contents of two {n}-bit operands', D_IBIN, {'n': n}, timeout=T))
            for (n, m) in [(0, 1), (8, 9), (2, 1)]:
                conds.append(Cond(f'C16.i{op}[{l},Bits,n={n},m={m}]', h_ibinop(l, 'Bits', n, m, op), f'unequal lengths {n},{m}', D_IBIN, {'n': n, 'm': m}, timeout=T))
            conds.append(Cond(f'C16.i{op}[{l},bytes,n=8]', h_ibinop(l, 'bytes', 8, 8, op), 'all 8-bit contents x all 1-byte right operands', D_IBIN, {'n': 8}, timeout=T))
    for l in CLS:
        for n in lens:
            conds.append(Cond(f'C16.invert[{l},n={n}]', h_invert(l, n), f'all {n}-bit contents', D_BIN, {'n': n}, timeout=T))
        for n in ([1, 8] if q else [1, 2, 8, 9, 64]):
            conds.append(Cond(f'C16.demorgan[{l},n={n}]', h_demorgan(l, n), f'all pairs of {n}-bit contents', D_BIN, {'n': n}, timeout=T))
        for n in ([0, 1, 2, 8, 9] if q else [0, 1, 2, 3, 7, 8, 9, 16, 17, 33]):
            for left in (True, False):
                conds.append(Cond(f"C16.{'lshift' if left else 'rshift'}[{l},n={n}]", h_shift(l, n, left, False),
                                  f'all {n}-bit contents x every Python int shift count', D_SH, {'n': n}, timeout=T))
                if l in ('BitArray', 'BitStream'):
                    conds.append(Cond(f"C16.{'ilshift' if left else 'irshift'}[{l},n={n}]", h_shift(l, n, left, True),
                                      f'all {n}-bit contents x every Python int shift count', D_ISH, {'n': n}, timeout=T))
    for l in CLS:
        for n in ([4] if q else [1, 4, 9]):
            conds.append(Cond(f'C16.shift-bool[{l},n={n}]', h_shift_bool(l, n), f'all {n}-bit contents x count in {{True, False}} x every shift form', D_SH, {'n': n}, timeout=T))
    # the whole family once more with options.lsb0 set (bit-wise operators and shifts are position-free)
    for l in (['BitArray', 'Bits'] if q else CLS):
        for n in ([1, 9] if q else [0, 1, 8, 9, 17]):
            for left in (True, False):
                conds.append(Cond(f"C16.{'lshift' if left else 'rshift'}[{l},n={n},lsb0]", lsb0_mode(h_shift(l, n, left, False)), f'all {n}-bit contents x every Python int shift count; options.lsb0 set', D_SH, {'n': n}, timeout=T))
                if l in ('BitArray', 'BitStream'):
                    conds.append(Cond(f"C16.{'ilshift' if left else 'irshift'}[{l},n={n},lsb0]", lsb0_mode(h_shift(l, n, left, True)), f'all {n}-bit contents x every Python int shift count; options.lsb0 set', D_ISH, {'n': n}, timeout=T))
            conds.append(Cond(f'C16.invert[{l},n={n},lsb0]', lsb0_mode(h_invert(l, n)), f'all {n}-bit contents; options.lsb0 set', D_BIN, {'n': n}, timeout=T))
            for op in OPS:
                conds.append(Cond(f'C16.{op}[{l},Bits,n={n},lsb0]', lsb0_mode(h_binop(l, 'Bits', n, n, op)), f'all contents of two {n}-bit operands; options.lsb0 set', D_BIN, {'n': n}, timeout=T))
                if l in ('BitArray', 'BitStream'):
                    conds.append(Cond(f'C16.i{op}[{l},Bits,n={n},lsb0]', lsb0_mode(h_ibinop(l, 'Bits', n, n, op)), f'all contents of two {n}-bit operands; options.lsb0 set', D_IBIN, {'n': n}, timeout=T))
    return conds
