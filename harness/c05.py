"""C05 - pack, unpack and token strings are mutually inverse and compositional."""
from __future__ import annotations

import struct

from kit.engine import Cond
from kit import oracle as O
from kit import logic as L
from kit.state import mk, raw, call, classes, same

ASSUMPTIONS = [
    "format strings are concrete catalogue entries whose flat token lists are written out by hand (independent of the library's parser); "
    "values, keyword lengths (from small sets) and stretchy-token contents are symbolic",
    "the per-token reference encoding is the library's own single-token constructor (whose canonical encoding is C02's subject); C05 asserts composition, lengths, arity and inversion",
]

D = ['bitstring.methods:pack', 'bitstring.utils:tokenparser', 'bitstring.utils:preprocess_tokens', 'bitstring.utils:expand_brackets', 'bitstring.utils:structparser',
     'bitstring.utils:parse_name_length_token', 'bitstring.utils:parse_single_token', 'bitstring.bits:Bits._readlist', 'bitstring.bits:Bits._read_dtype_list',
     'bitstring.bits:Bits.unpack', 'bitstring.bitstore_helpers:bitstore_from_token', 'bitstring.bitstore_helpers:str_to_bitstore', 'bitstring.dtypes:Dtype.build']

NE = 'le' if struct.pack('=H', 1) == b'\x01\x00' else 'be'

# catalogue: name -> (format, kwargs (name -> list of candidate lengths), flat token list [(dtype, length or kw-name)])
CAT = {
    'two-ints': ('uint:8, int:4', {}, [('uint', 8), ('int', 4)]),
    'spellings': ('uint8,int:4 , u3,i5', {}, [('uint', 8), ('int', 4), ('uint', 3), ('int', 5)]),
    'factor': ('3*uint:3', {}, [('uint', 3)] * 3),
    'bracket': ('2*(uint:3, bool)', {}, [('uint', 3), ('bool', 1)] * 2),
    'nested': ('2*(uint:2, 2*(bool, pad:1)), int:3', {}, ([('uint', 2)] + [('bool', 1), ('pad', 1)] * 2) * 2 + [('int', 3)]),
    'zero-factor': ('uint:4, 0*(hex:4, bool), 0*uint:3, int:4, 1*(bool)', {}, [('uint', 4), ('int', 4), ('bool', 1)]),
    'plain-brackets': ('(uint:2, (bool), int:2)', {}, [('uint', 2), ('bool', 1), ('int', 2)]),
    'kw-lengths': ('uint:n, int:m, bits:n', {'n': [1, 5, 9], 'm': [2, 8]}, [('uint', 'n'), ('int', 'm'), ('bits', 'n')]),
    'kw-factor': ('2*uint:n, pad:m', {'n': [3, 8], 'm': [0, 1, 5]}, [('uint', 'n'), ('uint', 'n'), ('pad', 'm')]),
    'struct-be': ('>HBq', {}, [('uintbe', 16), ('uint', 8), ('intbe', 64)]),
    'struct-le': ('<2hL', {}, [('intle', 16), ('intle', 16), ('uintle', 32)]),
    'struct-ne': ('=bI, @H', {}, [('int', 8), ('uint' + NE, 32), ('uint' + NE, 16)]),
    'struct-mixed': ('uint:4, >h, bool', {}, [('uint', 4), ('intbe', 16), ('bool', 1)]),
    'struct-factor': ('2*<B, 2*>2H', {}, [('uint', 8), ('uint', 8)] + [('uintbe', 16)] * 4),
    'struct-factor-multi': ('2*>bH, 2*(<hB)', {}, [('int', 8), ('uintbe', 16)] * 2 + [('intle', 16), ('uint', 8)] * 2),
    'factor-in-bracket-struct': ('2*(uint:3, 2*>Bb)', {}, ([('uint', 3)] + [('uint', 8), ('int', 8)] * 2) * 2),
    'endian': ('uintle:16, intbe:24, uintne:8, intle:8', {}, [('uintle', 16), ('intbe', 24), ('uint' + NE, 8), ('intle', 8)]),
    'text': ('hex:8, bin:3, oct:6', {}, [('hex', 8), ('bin', 3), ('oct', 6)]),
    'bytes-bits': ('bytes:2, bits:5, bytes1', {}, [('bytes', 16), ('bits', 5), ('bytes', 8)]),
    'pad': ('pad:3, uint:5, pad:0, pad:2', {}, [('pad', 3), ('uint', 5), ('pad', 0), ('pad', 2)]),
    'floats': ('float:32, floatle:16, bfloat, floatne:64', {}, [('float', 32), ('floatle', 16), ('bfloat', 16), ('float' + NE, 64)]),
    'golomb': ('ue, uint:4, se, uie, sie', {}, [('ue', None), ('uint', 4), ('se', None), ('uie', None), ('sie', None)]),
    'stretchy-last': ('uint:4, bits', {}, [('uint', 4), ('bits', '*')]),
    'stretchy-first': ('bits, uint:4, bool', {}, [('bits', '*'), ('uint', 4), ('bool', 1)]),
    'stretchy-mid-hex': ('uint:3, hex, 2*bool', {}, [('uint', 3), ('hex', '*'), ('bool', 1), ('bool', 1)]),
    'stretchy-bytes': ('bytes, uint:8', {}, [('bytes', '*'), ('uint', 8)]),
    'stretchy-bytes-tail': ('bin, bytes:1, 2*bytes1', {}, [('bin', '*'), ('bytes', 8), ('bytes', 8), ('bytes', 8)]),
    'whitespace': (' uint : 8 ,\tbool,, int:\n4 ', {}, [('uint', 8), ('bool', 1), ('int', 4)]),
    'list-format': (['uint:8, bool', 'int:4'], {}, [('uint', 8), ('bool', 1), ('int', 4)]),
}
UNIT = {'hex': 4, 'oct': 3, 'bytes': 8}
GOLOMB_RANGE = [1, 2]


def _value_for(K, i, name, L):
    """(python value to pack, expected single-token bits, value expected back from unpack)"""
    import bitstring
    import bitarray.util as U
    if name in ('uint', 'uintbe', 'uintle', 'uintne'):
        v = K.int(f'v{i}', 0, (1 << L) - 1)
        return v, raw(bitstring.Bits(**{name: v}, length=L)), v
    if name in ('int', 'intbe', 'intle', 'intne'):
        v = K.int(f'v{i}', -(1 << (L - 1)), (1 << (L - 1)) - 1)
        return v, raw(bitstring.Bits(**{name: v}, length=L)), v
    if name == 'bool':
        b = K.bits(f'v{i}', 1)
        v = True if b[0] == 1 else False
        return v, b, v
    if name == 'bits':
        b = K.bits(f'v{i}', L)
        return mk(K, bitstring.Bits, b), b, ('bits', b)
    if name == 'pad':
        return None, O.zeros(L), None
    if name in ('hex', 'bin', 'oct'):
        b = K.bits(f'v{i}', L)
        txt = {'hex': U.ba2hex, 'bin': lambda a: a.to01(), 'oct': lambda a: U.ba2base(8, a)}[name](b)
        return txt, b, txt
    if name == 'bytes':
        bb = K.bytes(f'v{i}', L // 8)
        b = O.empty()
        b.frombytes(bb)
        return bb, b, bb
    if name in ('float', 'floatbe', 'floatle', 'floatne', 'bfloat'):
        f = K.float(f'v{i}')
        b = raw(bitstring.Bits(**{name: f}, length=L)) if name != 'bfloat' else raw(bitstring.Bits(bfloat=f))
        return f, b, ('float', b)
    if name in ('ue', 'se', 'uie', 'sie'):
        v = K.conc(K.int(f'v{i}', -GOLOMB_RANGE[0] if name in ('se', 'sie') else 0, GOLOMB_RANGE[1]))
        return v, raw(bitstring.Bits(**{name: v})), v
    raise ValueError(name)


def _getf(s, name):
    from kit.state import get_attr
    return get_attr(s, name)


def _plan(K, entry):
    fmt, kwspec, toks = CAT[entry]
    kw = {k: K.choice('kw_' + k, vals) for k, vals in kwspec.items()}
    return fmt, kw, [(n, (kw[L] if isinstance(L, str) and L != '*' else L)) for n, L in toks]


def _same_value(K, got, want):
    import math
    if isinstance(want, tuple) and want[0] == 'bits':
        return hasattr(got, '_bitstore') and same(raw(got), want[1])
    if isinstance(want, tuple) and want[0] == 'float':
        return True   # compared through the packed bits (NaN payloads excepted)
    if isinstance(want, bool):
        return got is want or got == want
    return got == want


def h_pack(entry, stretch=4):
    def h(K):
        import bitstring
        import math
        fmt, kw, toks = _plan(K, entry)
        values, parts, backs = [], [], []
        for i, (name, L) in enumerate(toks):
            if L == '*':
                L = stretch * UNIT.get(name, 1)
            v, bits, back = _value_for(K, i, name, L)
            if name in ('float', 'floatbe', 'floatle', 'floatne', 'bfloat'):
                if math.isnan(v):
                    return True
            if name != 'pad':
                values.append(v)
                backs.append(back)
            parts.append(bits)
        exp = O.ref_concat(*parts)
        r = call(lambda: bitstring.pack(fmt, *values, **kw))
        if not r.ok:
            return K.fail('pack raised for conforming values', exc=r.excname, fmt=fmt)
        s = r.value
        if type(s) is not bitstring.BitStream or s._pos != 0:
            return K.fail('pack must return a BitStream at pos 0')
        if len(s) != len(exp):
            return K.fail('length of the packed bitstring is not the sum of the token lengths', got=len(s), expected=len(exp))
        if not K.check(same(raw(s), exp), 'packed bits are not the concatenation of the per-token encodings', got=raw(s), expected=exp):
            return False
        u = call(lambda: s.unpack(fmt, **kw))
        if not u.ok:
            return K.fail('unpack raised on the packed bitstring', exc=u.excname, fmt=fmt)
        if len(u.value) != len(backs):
            return K.fail('unpack returned the wrong number of values', got=len(u.value), expected=len(backs))
        for g, w in zip(u.value, backs):
            if not K.check(_same_value(K, g, w), 'unpack does not return the packed value', got=g):
                return False
        # arity
        if values:
            r2 = call(lambda: bitstring.pack(fmt, *values[:-1], **kw))
            if not K.check(r2.raised(ValueError), 'too few values must raise CreationError', exc=r2.excname):
                return False
        r3 = call(lambda: bitstring.pack(fmt, *(values + [0]), **kw))
        return K.check(r3.raised(ValueError), 'too many values must raise CreationError', exc=r3.excname)
    return h


def h_compose(entry, stretch=4):
    """every split of the top-level comma list into two formats: bits(f1, f2) == bits(f1) ++ bits(f2)"""
    def h(K):
        import bitstring
        import math
        fmt, kw, toks = _plan(K, entry)
        if not isinstance(fmt, str):
            return True
        # top-level pieces with the number of flat tokens each contributes (written from the grammar: split on commas at depth 0)
        pieces, depth, cur = [], 0, ''
        for ch in fmt:
            if ch == ',' and depth == 0:
                pieces.append(cur)
                cur = ''
            else:
                depth += (ch == '(') - (ch == ')')
                cur += ch
        pieces.append(cur)
        pieces = [p for p in pieces if p.strip()]
        values, nvals_flat = [], []
        for i, (name, L) in enumerate(toks):
            if L == '*':
                L = stretch * UNIT.get(name, 1)
            v, bits, back = _value_for(K, i, name, L)
            if name in ('float', 'floatbe', 'floatle', 'floatne', 'bfloat') and math.isnan(v):
                return True
            values.append(None if name == 'pad' else v)
        whole = call(lambda: bitstring.pack(fmt, *[v for v, (nm, _) in zip(values, toks) if nm != 'pad'], **kw))
        if not whole.ok:
            return K.fail('pack raised', exc=whole.excname)
        if len(pieces) < 2:
            return True
        k = K.choice('split', list(range(1, len(pieces))))
        f1, f2 = ','.join(pieces[:k]), ','.join(pieces[k:])
        cut = sum(_ref_count(p) for p in pieces[:k])
        flat_vals = [(v, nm) for v, (nm, _) in zip(values, toks)]
        v1 = [v for v, nm in flat_vals[:cut] if nm != 'pad']
        v2 = [v for v, nm in flat_vals[cut:] if nm != 'pad']
        a = call(lambda: bitstring.pack(f1, *v1, **kw))
        b = call(lambda: bitstring.pack(f2, *v2, **kw))
        if not (a.ok and b.ok):
            return K.fail('packing one half of the split raised', f1=f1, f2=f2, exc=a.excname or b.excname)
        return K.check(same(O.ref_concat(raw(a.value), raw(b.value)), raw(whole.value)), 'bits(f1) ++ bits(f2) differ from bits("f1, f2")', f1=f1, f2=f2)
    return h


def _ref_count(piece):
    """number of flat tokens a top-level piece of a format denotes (reference expansion written from the grammar)"""
    piece = ''.join(piece.split())
    if not piece:
        return 0
    if '*' in piece and piece.split('*', 1)[0].isdigit():
        f, rest = piece.split('*', 1)
        return int(f) * _ref_count(rest)
    if piece.startswith('(') and piece.endswith(')'):
        inner, depth, cur, total = piece[1:-1], 0, '', 0
        for ch in inner + ',':
            if ch == ',' and depth == 0:
                total += _ref_count(cur)
                cur = ''
            else:
                depth += (ch == '(') - (ch == ')')
                cur += ch
        return total
    if piece[0] in '<>=@':
        n, num = 0, ''
        for ch in piece[1:]:
            if ch.isdigit():
                num += ch
            else:
                n += int(num) if num else 1
                num = ''
        return n
    return 1


EMBED = [  # token strings with embedded values and the equivalent pack call
    ('uint:8=200, int:4=-3', ('uint:8, int:4', [200, -3])),
    ('2*(uint:3=5, bool=True)', ('2*(uint:3, bool)', [5, True, 5, True])),
    ('hex:8=a5, bin:3=011, oct:6=17', ('hex:8, bin:3, oct:6', ['a5', '011', '17'])),
    ('0xa5, 0b011, 0o17', ('hex:8, bin:3, oct:6', ['a5', '011', '17'])),
    ('ue=5, se=-2, uie=3, sie=0', ('ue, se, uie, sie', [5, -2, 3, 0])),
    ('float:32=1.5, floatle:16=-0.25', ('float:32, floatle:16', [1.5, -0.25])),
    ('uintle:16=258, intbe:16=-2', ('uintle:16, intbe:16', [258, -2])),
    ('pad:3, uint:5=7', ('pad:3, uint:5', [7])),
    ('3*uint:2=1', ('3*uint:2', [1, 1, 1])),
    ('0x1, 0*(0xf, 0b1), 0x2, 0*0xff', ('hex:4, hex:4', ['1', '2'])),
]


def h_embed(i):
    def h(K):
        import bitstring
        tok, eq = EMBED[i]
        cls = K.choice('cls', [bitstring.Bits, bitstring.BitArray, bitstring.ConstBitStream, bitstring.BitStream])
        r = call(lambda: cls(tok))
        if eq is None:
            return True if (r.ok or isinstance(r.exc, ValueError)) else K.fail('unexpected exception', exc=r.excname)
        fmt, vals = eq
        p = call(lambda: bitstring.pack(fmt, *vals))
        if not (r.ok and p.ok):
            return K.fail('token string or pack raised', tok=tok, exc=r.excname or p.excname)
        if not K.check(same(raw(r.value), raw(p.value)), 'token string with embedded values differs from pack with separate values', tok=tok):
            return False
        p2 = call(lambda: bitstring.pack(tok))
        return K.check(p2.ok and same(raw(p2.value), raw(p.value)), 'pack(token string with values) differs', tok=tok, exc=p2.excname)
    return h


def _ntok(tok):
    import bitstring
    return len(bitstring.utils.tokenparser(tok)[1])


def h_embed_lsb0(i):
    """the same claim with options.lsb0 set.  The stored order of a token string is the same in both modes (pinned by the test suite) and is
    asserted unconditionally; equality with pack() is the property's claim and is a recorded known finding for strings of two or more tokens"""
    def h(K):
        import bitstring
        tok, eq = EMBED[i]
        fmt, vals = eq
        cls = K.choice('cls', [bitstring.Bits, bitstring.BitArray, bitstring.ConstBitStream, bitstring.BitStream])
        r0 = call(lambda: cls(tok))
        bitstring.options.lsb0 = True
        try:
            r = call(lambda: cls(tok))
            p = call(lambda: bitstring.pack(fmt, *vals))
            p2 = call(lambda: bitstring.pack(tok))
        finally:
            bitstring.options.lsb0 = False
        if not r.ok and isinstance(r.exc, ValueError) and any(g in tok for g in ('ue', 'se', 'uie', 'sie')):
            return K.check((not p.ok) and (not p2.ok), 'exp-Golomb tokens are documented as unavailable in lsb0 mode: every route must refuse', exc=p.excname)
        if not (r0.ok and r.ok and p.ok and p2.ok):
            return K.fail_hard('token string or pack raised in lsb0 mode', tok=tok, exc=r.excname or p.excname or p2.excname)
        if not same(raw(r.value), raw(r0.value)):
            return K.fail_hard('a token string is stored differently in lsb0 and msb0 mode', tok=tok)
        if not same(raw(p2.value), raw(p.value)):
            return K.fail_hard('pack(token string with values) differs from pack with separate values in lsb0 mode', tok=tok)
        return K.check(same(raw(r.value), raw(p.value)), 'lsb0 mode: token string with embedded values differs from pack with separate values', tok=tok, string=raw(r.value), packed=raw(p.value))
    return h


REPEAT_CASES = [   # (first call, second call): (format, values, kwargs, expected bits)
    ((['uint:8', 'bool, hex:4'], (5, True, 'a'), {}, '00000101' + '1' + '1010'), (['uint:8', 'bool, hex:4'], (6, False, 'b'), {}, '00000110' + '0' + '1011')),
    ((['uint:8', 'bool, hex:4'], (5, True, 'a'), {}, '00000101' + '1' + '1010'), ('uint:8', (7,), {}, '00000111')),
    ((['uint:4=9', 'hex:8=f0'], (), {}, '1001' + '11110000'), (['uint:4=9', 'hex:8=f0'], (), {}, '1001' + '11110000')),
    ((['uint:n', 'int:4'], (3, -1), {'n': 5}, '00011' + '1111'), ('uint:n', (3,), {'n': 5}, '00011')),
    (('2*(uint:3, bool)', (1, True, 2, False), {}, '001' + '1' + '010' + '0'), ('2*(uint:3, bool)', (7, False, 0, True), {}, '111' + '0' + '000' + '1')),
    (('bits, uint:4', ('0b101', 3), {}, '101' + '0011'), ('bits, uint:4', ('0b0', 15), {}, '0' + '1111')),
    (('hex:8=a5, bin', ('11',), {}, '10100101' + '11'), ('hex:8=a5, bin', ('0',), {}, '10100101' + '0')),
]


def h_pack_twice():
    """a format packed a second time (same or a related format, other values) gives the bits its tokens demand: nothing of the first call is left behind
    (the real lru caches are live in this condition)"""
    def h(K):
        import bitstring
        from kit import env
        env.clear_caches()
        first, second = K.choice('case', REPEAT_CASES)
        for which, (fmt, vals, kw, want) in (('first', first), ('second', second), ('first again', first)):
            r = call(lambda: bitstring.pack(fmt, *vals, **kw))
            if not r.ok:
                return K.fail('pack raised for conforming values', call=which, fmt=repr(fmt), exc=r.excname)
            if not K.check(same(raw(r.value), O.from01(want)), 'pack does not give the bits of its tokens', call=which, fmt=repr(fmt), got=raw(r.value), expected=want):
                return False
        return True
    return h


def h_kw_values():
    """pack with values given by keyword equals pack with positional values"""
    def h(K):
        import bitstring
        a, b = K.int('a', 0, 255), K.int('b', -8, 7)
        n = K.choice('n', [4, 8])
        K.assume(b >= -(1 << (n - 1)) and b < (1 << (n - 1)))
        r1 = call(lambda: bitstring.pack('uint:8=a, int:n=b, uint:8=a', a=a, b=b, n=n))
        r2 = call(lambda: bitstring.pack('uint:8, int:n, uint:8', a, b, a, n=n))
        return K.check(r1.ok and r2.ok and same(raw(r1.value), raw(r2.value)), 'keyword values differ from positional values', exc=r1.excname or r2.excname)
    return h


def h_unpack_stretchy(entry, n):
    """unpack of arbitrary data with one length-less token: the stretchy token takes exactly the remaining bits"""
    def h(K):
        import bitstring
        fmt, kw, toks = _plan(K, entry)
        x = K.bits('x', n)
        s = mk(K, bitstring.Bits, x)
        r = call(lambda: s.unpack(fmt, **kw))
        fixed = sum(L for nm, L in toks if L != '*' and L is not None)
        sname = [nm for nm, L in toks if L == '*'][0]
        unit = UNIT.get(sname, 1)
        rest = n - fixed
        if rest < 0:
            return K.check(not r.ok and isinstance(r.exc, (ValueError, bitstring.ReadError)), 'too little data must raise', exc=r.excname)
        if rest % unit:
            return K.check(r.raised(ValueError), 'stretchy length not a multiple of its unit must raise ValueError', exc=r.excname)
        if not r.ok:
            return K.fail('unpack raised', exc=r.excname, n=n)
        # rebuild the data from the returned values
        vals = list(r.value)
        parts = []
        p = 0
        for nm, L in toks:
            LL = rest if L == '*' else L
            seg = x[p:p + LL]
            p += LL
            if nm == 'pad':
                continue
            g = vals.pop(0)
            ok = call(lambda: bitstring.Bits(**{nm: g}, length=(LL if nm in ('uint', 'int') else None)) if nm in ('uint', 'int') else (bitstring.Bits(**{nm: g}) if nm != 'bool' else bitstring.Bits(bool=g)))
            if not ok.ok:
                return K.fail('value returned by unpack cannot be re-encoded', token=nm, exc=ok.excname)
            if not K.check(same(raw(ok.value), seg), 'unpacked value is not the interpretation of its own segment', token=nm, seg=seg):
                return False
        return True
    return h


def conditions(tier):
    q = tier == 'quick'
    conds = []
    T = 240 if q else 450
    GOLOMB_RANGE[:] = [1, 2] if q else [3, 4]

    def add(cid, fn, bounds, **params):
        conds.append(Cond(cid, fn, bounds, D, params, timeout=T))

    for e in CAT:
        fmt = CAT[e][0]
        add(f'C05.pack-unpack[{e}]', h_pack(e), f'format {fmt!r}: every conforming value tuple (ints over their full range, all bit patterns for bits/text/float tokens), keyword lengths from the listed sets; arity +-1', entry=e)
        if q and e in ('golomb', 'floats', 'list-format', 'stretchy-bytes-tail', 'struct-factor'):
            continue
        add(f'C05.compose[{e}]', h_compose(e), f'format {fmt!r}: every split of its top-level token list into two formats', entry=e)
    for i, (tok, _) in enumerate(EMBED):
        add(f'C05.embedded[{tok}]', h_embed(i), 'concrete token string with embedded values, four classes')
    for i, (tok, eq) in enumerate(EMBED):
        if eq is not None:
            conds.append(Cond(f'C05.embedded-lsb0[{tok}]', h_embed_lsb0(i), 'concrete token string with embedded values, four classes, options.lsb0 = True', D, {'ntok': _ntok(tok)}, timeout=T))
    from kit import env as _env
    conds.append(Cond('C05.pack-twice', h_pack_twice(), f'{len(REPEAT_CASES)} pairs of concrete pack calls (chosen by solver forks), each sequence first / second / first again; live lru caches', D, {}, timeout=T, setup=_env.live_caches))
    add('C05.kw-values', h_kw_values(), 'a in [0,255], b in [-8,7], n in {4,8}')
    for e in ('stretchy-last', 'stretchy-first', 'stretchy-mid-hex', 'stretchy-bytes', 'stretchy-bytes-tail'):
        for n in ([0, 7, 13, 24] if q else list(range(0, 34))):
            add(f'C05.unpack-stretchy[{e},n={n}]', h_unpack_stretchy(e, n), f'every {n}-bit string', entry=e, n=n)
    return conds
