"""C08 - behaviour depends only on bit content, not on where the bits came from.

2-safety: X is built by a construction route, Y is the in-memory twin with the same bits; every
operation of the catalogue must give the same result (value, exception class, final content) on both.
"""
from __future__ import annotations

import io

from kit.engine import Cond
from kit import oracle as O
from kit import logic as L
from kit import files as F
from kit.state import mk, raw, call, classes, is_stream, is_mutable, same, get_attr
from harness.common import CLS

ASSUMPTIONS = [
    "file routes use the fake open/mmap of kit.files over symbolic raw content (replays: real temporary files)",
    "the operation catalogue is a finite enumeration of the public API; contents, windows and operation arguments are symbolic",
]

D = ['bitstring.bits:Bits._setfile', 'bitstring.bits:Bits._setauto', 'bitstring.bits:Bits._setbytes_with_truncation', 'bitstring.bits:Bits._setbitarray',
     'bitstring.bitstore:BitStore.frombuffer', 'bitstring.bitstore:BitStore.tobytes', 'bitstring.bitstore:BitStore.getslice_msb0', 'bitstring.bitstore:BitStore.getslice_withstep_msb0',
     'bitstring.bitstore:BitStore.__len__', 'bitstring.bitstore:BitStore.__eq__', 'bitstring.bitstore:BitStore.count', 'bitstring.bitstore:BitStore._copy',
     'bitstring.bitstore:BitStore.__and__', 'bitstring.bitstore:BitStore.__or__', 'bitstring.bitstore:BitStore.__xor__', 'bitstring.bitstore:BitStore.__iadd__',
     'bitstring.bitstore:BitStore.invert_msb0', 'bitstring.bitstore:BitStore.getindex_msb0', 'bitstring.bitstore:BitStore.getslice_lsb0', 'bitstring.bitstore:BitStore.getindex_lsb0',
     'bitstring.bitstore:BitStore.find', 'bitstring.bitstore:BitStore.rfind', 'bitstring.bitstore:BitStore.findall_msb0', 'bitstring.bitstore:BitStore.any_set', 'bitstring.bitstore:BitStore.all_set']

ROUTES = ['unnamed-reader-len', 'unnamed-reader-window', 'bitarray-little', 'bitarray-little-window', 'file-len', 'file-len-unaligned', 'file-whole', 'file-exact-len', 'file-offset', 'file-offset-len', 'handle-len', 'bytes-window', 'bitarray', 'bitarray-window', 'slice-of-larger', 'copy-of', 'bools']


def build(K, cls, route, n):
    """returns (X, expected bits) with len == n"""
    import bitstring
    import bitarray
    if route.startswith('file') or route.startswith('handle'):
        nbytes = (n + 7) // 8 + 1
        if route in ('file-whole', 'file-exact-len'):
            nbytes = n // 8
        if route in ('file-offset', 'file-offset-len'):
            off = 3
            nbytes = (n + off + 7) // 8 + (1 if route == 'file-offset-len' else 0)
            if route == 'file-offset':
                # the window must run to the end of the file
                nbytes = (n + off + 7) // 8
                if (8 * nbytes - off) != n:
                    off = 8 * nbytes - n
        fn, rawbits = F.make_file(K, 'r', max(nbytes, 1))
        if route == 'file-len' or route == 'file-len-unaligned':
            return cls(filename=fn, length=n), rawbits[:n]
        if route == 'file-whole':
            return cls(filename=fn), rawbits
        if route == 'file-exact-len':
            return cls(filename=fn, length=n), rawbits
        if route == 'file-offset':
            return cls(filename=fn, offset=off), rawbits[off:]
        if route == 'file-offset-len':
            return cls(filename=fn, offset=off, length=n), rawbits[off:off + n]
        if route == 'handle-len':
            h = F.open_handle(K, fn)
            try:
                return cls(h, length=n), rawbits[:n]
            finally:
                h.close()
    if route in ('unnamed-reader-len', 'unnamed-reader-window'):
        # a buffered reader over something that is not a named file (no .name, nothing to memory-map): the content comes from a
        # small concrete catalogue chosen by the solver (a real io.BytesIO cannot hold symbolic bytes)
        import io
        off = 3 if route == 'unnamed-reader-window' else 0
        nb = (n + off + 7) // 8 + (0 if (off == 0 and n % 8 == 0) else 1)
        b = K.choice('reader_content', [bytes((37 * (i + 1) * k + 11 * k) & 0xff for i in range(nb)) for k in (1, 3, 7)])
        allb = O.empty()
        allb.frombytes(b)
        rd = io.BufferedReader(io.BytesIO(b))
        if off:
            return cls(rd, offset=off, length=n), allb[off:off + n]
        return (cls(rd) if (n % 8 == 0 and n) else cls(rd, length=n)), allb[:n]
    if route == 'bytes-window':
        nb = (n + 5 + 7) // 8
        b = K.bytes('b', nb)
        allb = O.empty()
        allb.frombytes(b)
        return cls(bytes=b, offset=5, length=n), allb[5:5 + n]
    if route == 'bitarray':
        x = K.bits('x', n)
        return cls(x.copy()), x
    if route == 'bitarray-little':
        # a bitarray with little-endian bit order holds the same sequence of bits; only its byte image differs
        x = K.bits('x', n)
        return cls(bitarray.bitarray(x, endian='little')), x
    if route == 'bitarray-little-window':
        x = K.bits('x', n + 4)
        return cls(bitarray=bitarray.bitarray(x, endian='little'), offset=3, length=n), x[3:3 + n]
    if route == 'bitarray-window':
        x = K.bits('x', n + 4)
        return cls(bitarray=x.copy(), offset=3, length=n), x[3:3 + n]
    if route == 'slice-of-larger':
        x = K.bits('x', n + 5)
        return mk(K, cls, x)[2:2 + n], x[2:2 + n]
    if route == 'copy-of':
        x = K.bits('x', n)
        return mk(K, bitstring.BitStream, x, 0).copy() if cls is bitstring.BitStream else cls(mk(K, bitstring.Bits, x)), x
    if route == 'bools':
        x = K.bits('x', n)
        return cls([x[j] == 1 for j in range(n)]), x
    raise ValueError(route)


class _Lazy:
    """a symbolic argument created (and case-split) only on the paths whose operation uses it"""

    def __init__(self, make):
        self.make, self.v, self.done = make, None, False

    def __call__(self):
        if not self.done:
            self.v, self.done = self.make(), True
        return self.v


def _ops(K, n):
    """name -> function(obj) -> observable (values, bitarrays or lists of them)"""
    import bitstring
    i = _Lazy(lambda: K.int('i', -n - 1, n))
    a, b = _Lazy(lambda: K.opt_int('s_start', -n - 1, n + 1)), _Lazy(lambda: K.opt_int('s_stop', -n - 1, n + 1))
    st = _Lazy(lambda: K.choice('step', [-2, -1, 2]))
    pat = K.bits('pat', 2)
    other = K.bits('other', n)

    def pobj():
        return mk(K, bitstring.Bits, pat)

    def oobj():
        return mk(K, bitstring.Bits, other)
    ops = {
        'len': lambda s: len(s), 'bool': lambda s: bool(s), 'eq-twin': lambda s: s == oobj(), 'ne-twin': lambda s: s != oobj(), 'eq-reflected': lambda s: oobj() == s,
        'bin': lambda s: s.bin, 'tobytes': lambda s: s.tobytes(), 'count1': lambda s: s.count(1), 'count0': lambda s: s.count(0), 'index': lambda s: s[i()],
        'slice': lambda s: raw(s[a():b()]), 'stepslice': lambda s: raw(s[a():b():st()]), 'reversed': lambda s: raw(s[::-1]), 'iter': lambda s: list(s), 'add': lambda s: raw(s + pobj()), 'radd': lambda s: raw(pobj() + s),
        'mul': lambda s: raw(s * 2), 'invert': lambda s: raw(~s), 'and': lambda s: raw(s & oobj()), 'or': lambda s: raw(s | oobj()), 'xor': lambda s: raw(s ^ oobj()),
        'rand': lambda s: raw(oobj() & s), 'lshift': lambda s: raw(s << 1), 'rshift': lambda s: raw(s >> 1), 'find': lambda s: s.find(pobj(), a(), b()),
        'rfind': lambda s: s.rfind(pobj()), 'findall': lambda s: list(s.findall(pobj())), 'contains': lambda s: pobj() in s, 'startswith': lambda s: s.startswith(pobj()),
        'endswith': lambda s: s.endswith(pobj()), 'cut': lambda s: [raw(c) for c in s.cut(3)], 'split': lambda s: [raw(c) for c in s.split(pobj())], 'all1': lambda s: s.all(1),
        'any1': lambda s: s.any(1), 'all0': lambda s: s.all(0), 'any0': lambda s: s.any(0), 'all-pos': lambda s: s.all(1, [i()]), 'uint': lambda s: s.uint, 'int': lambda s: s.int,
        'unpack': lambda s: s.unpack('bin'), 'copy': lambda s: raw(s.copy()), 'to-BitArray': lambda s: raw(bitstring.BitArray(s)), 'to-Bits': lambda s: raw(bitstring.Bits(s)),
        'tobitarray': lambda s: s.tobitarray().copy(), 'join': lambda s: raw(s.join([pobj(), pobj()])), 'hash': lambda s: (hash(s) if not K.symbolic else s.tobytes()) if type(s).__hash__ is not None else None,
        'str': lambda s: str(s) if not K.symbolic else None, 'bytes-prop': lambda s: s.bytes, 'hex': lambda s: s.hex,
        'tofile': lambda s: _tofile_bits(K, s), 'bytes()': lambda s: s.__bytes__(), 'repr-class': lambda s: repr(s).split('(')[0] if not K.symbolic else None,
    }
    return ops


def _tofile_bits(K, s):
    import io
    if K.symbolic:
        w = F.FakeWriter()
        s.tofile(w)
        return w.bits()
    buf = io.BytesIO()
    s.tofile(buf)
    r = O.empty()
    r.frombytes(buf.getvalue())
    return r


def _lsb0_ops(K, n):
    import bitstring
    i = _Lazy(lambda: K.int('i', -n - 1, n))
    a, b = _Lazy(lambda: K.opt_int('s_start', -n - 1, n + 1)), _Lazy(lambda: K.opt_int('s_stop', -n - 1, n + 1))

    def lsb(f):
        def g(s):
            bitstring.options.lsb0 = True
            try:
                return f(s)
            finally:
                bitstring.options.lsb0 = False
        return g
    ops = {'lsb0-index': lsb(lambda s: s[i()]), 'lsb0-slice': lsb(lambda s: raw(s[a():b()])), 'lsb0-find': lsb(lambda s: s.find('0b1')), 'lsb0-iter': lsb(lambda s: list(s))}
    if LIGHT[0]:
        del ops['lsb0-slice']
    return ops


LIGHT = [False]


def _mut_ops(K, n):
    import bitstring
    i = K.int('i', -n - 1, n)
    y = K.bits('y', 2)
    z = K.bits('z', n)

    def yo():
        return mk(K, bitstring.Bits, y)

    def m(f):
        def g(s):
            r = f(s)
            return [r, raw(s)]
        return g
    return {'append': m(lambda s: s.append(yo())), 'prepend': m(lambda s: s.prepend(yo())), 'invert-all': m(lambda s: s.invert()), 'invert-i': m(lambda s: s.invert(i)),
            'set-i': m(lambda s: s.set(1, i)), 'reverse': m(lambda s: s.reverse()), 'delitem': m(lambda s: s.__delitem__(i)), 'setitem': m(lambda s: s.__setitem__(i, 1)),
            'iand': m(lambda s: s.__iand__(mk(K, bitstring.Bits, z))), 'ilshift': m(lambda s: s.__ilshift__(1)), 'imul': m(lambda s: s.__imul__(2)),
            'replace': m(lambda s: s.replace(yo(), '0b0')), 'insert': m(lambda s: s.insert(yo(), 0)), 'overwrite': m(lambda s: s.overwrite(yo(), 0)), 'clear': m(lambda s: s.clear()),
            'ror': m(lambda s: s.ror(1)), 'byteswap': m(lambda s: s.byteswap()), 'set-uint': m(lambda s: s.__setattr__('uint', 1))}


def _equal_obs(K, u, v):
    tu = type(u).__name__
    if tu in ('bitarray', 'frozenbitarray') or type(v).__name__ in ('bitarray', 'frozenbitarray'):
        return type(v).__name__ == tu and same(u, v)
    if isinstance(u, (list, tuple)):
        if not isinstance(v, (list, tuple)) or len(u) != len(v):
            return False
        ok = True
        for p, q in zip(u, v):
            ok = ok and _equal_obs(K, p, q)
        return ok
    return u == v


def h_route(cname, route, n, opset, only=None, build_lsb0=False):
    def h(K):
        import bitstring
        cls = classes()[cname]
        try:
            bitstring.options.lsb0 = build_lsb0      # offsets and lengths of a construction route select stored bits in both modes
            try:
                X, e = build(K, cls, route, n)
            finally:
                bitstring.options.lsb0 = False
            if len(e) != n:
                return K.fail('harness: expected content has the wrong length', got=len(e))
            if type(X) is not cls:
                return K.fail('construction route returned the wrong class', got=type(X).__name__)
            ops = {'plain': _ops, 'lsb0': _lsb0_ops, 'mut': _mut_ops}[opset](K, n)
            for nm, f in ops.items():
                if only and nm not in only:
                    continue
                if opset == 'mut':
                    X2, _ = build(K, cls, route, n) if False else (X, e)
                Y = mk(K, cls, e)
                rx, ry = call(lambda: f(X)), call(lambda: f(Y))
                if rx.ok != ry.ok:
                    return K.fail('operation raises on one construction route and not on the in-memory twin', op=nm, route_exc=rx.excname, twin_exc=ry.excname)
                if not rx.ok:
                    if type(rx.exc) is not type(ry.exc):
                        return K.fail('different exception classes', op=nm, route_exc=rx.excname, twin_exc=ry.excname)
                    continue
                if not K.check(_equal_obs(K, rx.value, ry.value), 'operation result differs between the construction route and the in-memory twin with equal bits', op=nm, route=route,
                               route_result=rx.value, twin_result=ry.value):
                    return False
                if opset == 'mut':
                    break   # the object has been mutated: one mutator per path
            return True
        finally:
            bitstring.options.lsb0 = False
            if not K.symbolic:
                F.cleanup()
    return h


def h_route_mut(cname, route, n, opname):
    def h(K):
        import bitstring
        cls = classes()[cname]
        try:
            X, e = build(K, cls, route, n)
            Y = mk(K, cls, e)
            f = _mut_ops(K, n)[opname]
            rx, ry = call(lambda: f(X)), call(lambda: f(Y))
            if rx.ok != ry.ok:
                return K.fail('mutator raises on one construction route and not on the in-memory twin', op=opname, route_exc=rx.excname, twin_exc=ry.excname)
            if not rx.ok:
                return K.check(type(rx.exc) is type(ry.exc) and same(raw(X), raw(Y)), 'different exception classes or content after a failed mutator', op=opname)
            return K.check(_equal_obs(K, rx.value, ry.value), 'mutator result / final content differs between the construction route and the in-memory twin', op=opname, route=route,
                           route_result=rx.value, twin_result=ry.value)
        finally:
            if not K.symbolic:
                F.cleanup()
    return h


PLAIN_GROUPS = {
    'basic': ['len', 'bool', 'bin', 'tobytes', 'tofile', 'bytes()', 'count1', 'count0', 'index', 'iter', 'uint', 'int', 'hex', 'bytes-prop', 'unpack', 'str', 'hash', 'repr-class'],
    'eq': ['eq-twin', 'ne-twin', 'eq-reflected'],
    'slice': ['slice', 'reversed', 'cut', 'split', 'join'],
    'stepslice': ['stepslice'],
    'arith': ['add', 'radd', 'mul', 'invert', 'lshift', 'rshift', 'copy', 'to-BitArray', 'to-Bits', 'tobitarray'],
    'bitwise': ['and', 'or', 'xor', 'rand'],
    'search': ['find', 'rfind', 'findall', 'contains', 'startswith', 'endswith', 'all1', 'any1', 'all0', 'any0', 'all-pos'],
}


def conditions(tier):
    q = tier == 'quick'
    conds = []
    T = 240 if q else 450
    LIGHT[0] = q

    def add(cid, fn, bounds, **params):
        conds.append(Cond(cid, fn, bounds, D, params, timeout=T, setup=F.install_fakes))

    WHOLE = ('file-whole', 'file-exact-len')
    routes_q = ['unnamed-reader-len', 'unnamed-reader-window', 'bitarray-little', 'bitarray-little-window', 'file-len', 'file-whole', 'file-exact-len', 'file-offset-len', 'handle-len', 'bytes-window', 'bitarray-window', 'slice-of-larger']
    for c in (['Bits', 'BitArray'] if q else CLS):
        for route in (routes_q if q else ROUTES):
            for n in (([8] if route in WHOLE else [4]) if q else [0, 5, 8, 11]):
                if route in WHOLE and (n % 8 or n == 0):
                    continue
                for g, names in PLAIN_GROUPS.items():
                    if q and g == 'search':
                        names = ['rfind', 'contains', 'endswith', 'all1', 'any0', 'all-pos']
                    if q and c == 'BitArray' and g in ('slice', 'stepslice', 'search') and not route.startswith('file'):
                        continue
                    if q and route in WHOLE and g in ('basic', 'slice'):
                        for nm in names:
                            add(f'C08.{g}.{nm}[{c},{route},n={n}]', h_route(c, route, n, 'plain', [nm]), f'all raw contents behind route {route} (logical length {n}) x operation arguments; op: {nm}', route=route, n=n, group=g)
                        continue
                    add(f'C08.{g}[{c},{route},n={n}]', h_route(c, route, n, 'plain', names), f'all raw contents behind route {route} (logical length {n}) x operation arguments; ops: {", ".join(names)}', route=route, n=n, group=g)
                if q and route in WHOLE:
                    for nm in ['lsb0-index', 'lsb0-find', 'lsb0-iter']:
                        add(f'C08.{nm}[{c},{route},n={n}]', h_route(c, route, n, 'lsb0', [nm]), f'route {route}, length {n}; {nm}', route=route, n=n, group='lsb0')
                    continue
                add(f'C08.lsb0[{c},{route},n={n}]', h_route(c, route, n, 'lsb0'), f'route {route}, length {n}; lsb0 index/slice/find/iter', route=route, n=n, group='lsb0')
    for c in (['Bits', 'BitArray'] if q else CLS):
        for route in ['file-offset-len', 'file-offset', 'file-len', 'handle-len', 'bytes-window', 'bitarray-window', 'bitarray-little-window']:
            for n in ([4] if q else [5, 8]):
                add(f'C08.basic[{c},{route},n={n},built-in-lsb0]', h_route(c, route, n, 'plain', ['len', 'bin', 'tobytes', 'uint', 'eq-twin', 'hash', 'count1'], build_lsb0=True),
                    f'route {route} (logical length {n}) taken while options.lsb0 is set; basic observables afterwards in msb0 mode', route=route, n=n, group='built-in-lsb0')
    for c in (['BitArray'] if q else ['BitArray', 'BitStream']):
        for route in (['file-len', 'bytes-window'] if q else ['file-len', 'file-offset-len', 'handle-len', 'bytes-window', 'bitarray-window', 'slice-of-larger']):
            for n in ([4] if q else [5, 8]):
                for opname in ['append', 'prepend', 'invert-all', 'invert-i', 'set-i', 'reverse', 'delitem', 'setitem', 'iand', 'ilshift', 'imul', 'replace', 'insert', 'overwrite', 'clear', 'ror', 'byteswap', 'set-uint']:
                    if q and opname in ('prepend', 'set-i', 'ilshift', 'imul', 'clear', 'ror', 'byteswap', 'set-uint', 'insert'):
                        continue
                    add(f'C08.mut-{opname}[{c},{route},n={n}]', h_route_mut(c, route, n, opname), f'route {route}, length {n}; mutator {opname} with symbolic arguments', route=route, n=n, group='mut')
    return conds
