"""C14 - Array behaves as a list of fixed-width items over one contiguous bit buffer.

Single step from an arbitrary Array state: k items of a catalogue dtype plus t < w trailing bits,
all data bits symbolic.  The list model is kept at the bit level: item i is data[i*w:(i+1)*w];
decoding/encoding of a single item is delegated to Dtype.parse/build (whose encodings are C02's subject).
"""
from __future__ import annotations

import operator

from kit.engine import Cond
from kit import oracle as O
from kit import logic as L
from kit.state import mk, raw, call, classes, same, get_attr

ASSUMPTIONS = [
    "single item decode/encode is taken from Dtype.parse / Dtype.build on the right segment (C02 decides the encodings); C14 decides offsets, lengths, trailing bits and list semantics",
    "dtypes come from a catalogue; item counts and trailing lengths are enumerated; data, indices and values are symbolic",
]

D = ['bitstring.array_:Array.__getitem__', 'bitstring.array_:Array.__setitem__', 'bitstring.array_:Array.__delitem__', 'bitstring.array_:Array.__len__', 'bitstring.array_:Array.append',
     'bitstring.array_:Array.extend', 'bitstring.array_:Array.insert', 'bitstring.array_:Array.pop', 'bitstring.array_:Array.reverse', 'bitstring.array_:Array.count', 'bitstring.array_:Array.tolist',
     'bitstring.array_:Array.__iter__', 'bitstring.array_:Array.equals', 'bitstring.array_:Array.__copy__', 'bitstring.array_:Array._set_dtype', 'bitstring.array_:Array.trailing_bits',
     'bitstring.array_:Array._create_element', 'bitstring.array_:Array._apply_op_to_all_elements', 'bitstring.array_:Array._apply_op_to_all_elements_inplace',
     'bitstring.array_:Array._apply_bitwise_op_to_all_elements_inplace', 'bitstring.array_:Array._apply_op_between_arrays', 'bitstring.array_:Array._promotetype', 'bitstring.array_:Array.__init__']

# dtype -> (bits per item, kind, value range for ints)
DT = {
    'uint5': (5, 'uint'), 'int8': (8, 'int'), 'uintle16': (16, 'uint'), 'intbe24': (24, 'int'), 'hex8': (8, 'hex'), 'bin3': (3, 'bin'), 'oct6': (6, 'oct'), 'bool': (1, 'bool'),
    'uintbe16': (16, 'uint'), 'intle16': (16, 'int'), 'int16': (16, 'int'), 'uintne16': (16, 'uint'),
    'float16': (16, 'float'), 'bfloat': (16, 'float'), 'e4m3mxfp': (8, 'float'), 'bytes2': (16, 'bytes'), '>H': (16, 'uint'), '<i': (32, 'int'), 'uint1': (1, 'uint'), 'int3': (3, 'int'),
}


def _arr(K, dtype, k, t):
    import bitstring
    w = DT[dtype][0]
    x = K.bits('data', w * k + t)
    a = bitstring.Array(dtype)
    a.data = mk(K, bitstring.BitArray, x)
    return a, x, w


def _decode(dtype, seg):
    import bitstring
    d = _dt(dtype)
    return d.parse(mk(_CK, bitstring.Bits, seg) if False else _bits(seg))


def _bits(seg):
    import bitstring
    from bitstring.bitstore import BitStore
    b = object.__new__(bitstring.Bits)
    st = object.__new__(BitStore)
    st._bitarray = seg.copy()
    st.modified_length = None
    st.immutable = True
    b._bitstore = st
    return b


class _CK:
    symbolic = False


def _dt(dtype):
    import bitstring
    a = bitstring.Array(dtype)
    return a.dtype


def _value(K, dtype, name='v', in_range=True):
    w, kind = DT[dtype]
    if kind == 'uint':
        return K.int(name, 0, (1 << w) - 1) if in_range else K.int(name)
    if kind == 'int':
        return K.int(name, -(1 << (w - 1)), (1 << (w - 1)) - 1) if in_range else K.int(name)
    if kind == 'bool':
        return K.bool(name)
    if kind == 'float':
        return K.choice(name, [0.0, 1.0, -2.0, 0.5])
    if kind == 'hex':
        return K.choice(name, ['00', 'a5', 'ff'])
    if kind == 'bin':
        return K.choice(name, ['000', '101', '111'])
    if kind == 'oct':
        return K.choice(name, ['00', '17', '77'])
    if kind == 'bytes':
        return K.choice(name, [b'AB', b'\x00\xff'])
    raise ValueError(kind)


def _enc(dtype, v):
    return raw(_dt(dtype).build(v))


def _fits(dtype, v):
    w, kind = DT[dtype]
    if kind == 'uint':
        return (0 <= v) and (v < (1 << w))
    if kind == 'int':
        return (-(1 << (w - 1)) <= v) and (v < (1 << (w - 1)))
    return True


def _items(x, w, k):
    return [x[i * w:(i + 1) * w] for i in range(k)]


def _eqval(a, b):
    if isinstance(a, float) and a != a:
        return b != b
    return a == b


def h_read(dtype, k, t):
    def h(K):
        a, x, w = _arr(K, dtype, k, t)
        if not K.check(len(a) == k and a.itemsize == w, 'len / itemsize', got=len(a)):
            return False
        tb = call(lambda: a.trailing_bits)
        if not K.check(tb.ok and same(raw(tb.value), x[k * w:]), 'trailing_bits is not the data beyond the last whole item', exc=tb.excname):
            return False
        i = K.int('i')
        r = call(lambda: a[i])
        if not ((-k <= i) and (i < k)):
            if not K.check(r.raised(IndexError), 'out-of-range item index must raise IndexError', exc=r.excname):
                return False
        else:
            j = K.conc(i + k if i < 0 else i)
            if not r.ok:
                return K.fail('item read raised', exc=r.excname)
            if not K.check(_eqval(r.value, _decode(dtype, x[j * w:(j + 1) * w])), 'a[i] is not the decoding of bits [i*w, (i+1)*w)', i=j, got=r.value):
                return False
        tl = call(lambda: a.tolist())
        it = call(lambda: list(a))
        if not (tl.ok and it.ok and len(tl.value) == k and len(it.value) == k):
            return K.fail('tolist / iteration length', exc=tl.excname or it.excname)
        for j in range(k):
            e = _decode(dtype, x[j * w:(j + 1) * w])
            if not K.check(_eqval(tl.value[j], e) and _eqval(it.value[j], e), 'tolist/iteration item', j=j):
                return False
        return K.check(same(raw(a.data), x), 'reading changed the data')
    return h


def h_getslice(dtype, k, t):
    def h(K):
        a, x, w = _arr(K, dtype, k, t)
        lim = k + 2
        s0, s1, s2 = K.opt_int('start', -lim, lim), K.opt_int('stop', -lim, lim), K.opt_int('step', -lim, lim)
        r = call(lambda: a[s0:s1:s2])
        if s2 is not None and s2 == 0:
            return K.check(r.raised(ValueError), 'zero step must raise ValueError', exc=r.excname)
        if not r.ok:
            return K.fail('Array slice raised', exc=r.excname)
        b = r.value
        f, st, cnt = O.slice_plan(k, s0, s1, s2)
        f, st, cnt = K.conc(f), K.conc(st), K.conc(cnt)
        exp = O.ref_concat(*[x[(f + j * st) * w:(f + j * st + 1) * w] for j in range(cnt)])
        ok = type(b) is type(a) and b.dtype == a.dtype and same(raw(b.data), exp) and same(raw(a.data), x)
        return K.check(ok, 'Array slice is not the Array of the selected items (no trailing bits)', got=raw(b.data), expected=exp)
    return h


def h_setitem(dtype, k, t):
    def h(K):
        a, x, w = _arr(K, dtype, k, t)
        i = K.int('i')
        v = _value(K, dtype, 'v', in_range=False)

        def f():
            a[i] = v
        r = call(f)
        if not ((-k <= i) and (i < k)):
            return K.check(r.raised(IndexError) and same(raw(a.data), x), 'out-of-range item index must raise IndexError and change nothing', exc=r.excname)
        if not _fits(dtype, v):
            return K.check(r.raised(ValueError) and same(raw(a.data), x), 'a value that does not fit must raise and leave the Array unchanged', exc=r.excname)
        if not r.ok:
            return K.fail('item assignment raised', exc=r.excname)
        j = K.conc(i + k if i < 0 else i)
        exp = O.ref_concat(x[:j * w], _enc(dtype, v), x[(j + 1) * w:])
        return K.check(same(raw(a.data), exp), 'a[i] = v must rewrite exactly bits [i*w, (i+1)*w)', got=raw(a.data), expected=exp)
    return h


def h_delitem(dtype, k, t):
    def h(K):
        a, x, w = _arr(K, dtype, k, t)
        i = K.int('i')

        def f():
            del a[i]
        r = call(f)
        if not ((-k <= i) and (i < k)):
            return K.check(r.raised(IndexError) and same(raw(a.data), x), 'out-of-range item index must raise IndexError', exc=r.excname)
        if not r.ok:
            return K.fail('del a[i] raised', exc=r.excname)
        j = K.conc(i + k if i < 0 else i)
        return K.check(same(raw(a.data), O.ref_concat(x[:j * w], x[(j + 1) * w:])), 'del a[i] must remove exactly item i and keep the trailing bits', got=raw(a.data))
    return h


def h_delslice(dtype, k, t):
    def h(K):
        a, x, w = _arr(K, dtype, k, t)
        lim = k + 2
        s0, s1, s2 = K.opt_int('start', -lim, lim), K.opt_int('stop', -lim, lim), K.opt_int('step', -lim, lim)

        def f():
            del a[s0:s1:s2]
        r = call(f)
        if s2 is not None and s2 == 0:
            return K.check(r.raised(ValueError), 'zero step must raise ValueError', exc=r.excname)
        if not r.ok:
            return K.fail('del a[slice] raised', exc=r.excname)
        f0, st, cnt = O.slice_plan(k, s0, s1, s2)
        f0, st, cnt = K.conc(f0), K.conc(st), K.conc(cnt)
        drop = set(f0 + j * st for j in range(cnt))
        exp = O.ref_concat(*[x[i * w:(i + 1) * w] for i in range(k) if i not in drop], x[k * w:])
        return K.check(same(raw(a.data), exp), 'del a[slice] must remove exactly the selected items', got=raw(a.data), expected=exp)
    return h


def h_setslice(dtype, k, t, m):
    def h(K):
        a, x, w = _arr(K, dtype, k, t)
        lim = k + 2
        s0, s1, s2 = K.opt_int('start', -lim, lim), K.opt_int('stop', -lim, lim), K.opt_int('step', -lim, lim)
        vals = [_value(K, dtype, f'v{j}') for j in range(m)]

        def f():
            a[s0:s1:s2] = vals
        r = call(f)
        if s2 is not None and s2 == 0:
            return K.check((not r.ok) and same(raw(a.data), x), 'zero step must raise', exc=r.excname)
        f0, st, cnt = O.slice_plan(k, s0, s1, s2)
        f0, st, cnt = K.conc(f0), K.conc(st), K.conc(cnt)
        encs = [_enc(dtype, v) for v in vals]
        if s2 is None or st == 1:
            if not r.ok:
                return K.fail('slice assignment raised', exc=r.excname)
            exp = O.ref_concat(x[:f0 * w], *encs, x[(f0 + cnt) * w:])
            return K.check(same(raw(a.data), exp), 'a[i:j] = values must replace exactly the selected items', got=raw(a.data), expected=exp)
        if cnt != m:
            return K.check(r.raised(ValueError) and same(raw(a.data), x), 'extended slice of a different size must raise ValueError and change nothing', exc=r.excname)
        if not r.ok:
            return K.fail('extended slice assignment raised', exc=r.excname)
        where = {f0 + j * st: j for j in range(cnt)}
        exp = O.ref_concat(*[(encs[where[i]] if i in where else x[i * w:(i + 1) * w]) for i in range(k)], x[k * w:])
        return K.check(same(raw(a.data), exp), 'extended slice assignment', got=raw(a.data), expected=exp)
    return h


def h_grow(dtype, k, t, op):
    def h(K):
        import bitstring
        a, x, w = _arr(K, dtype, k, t)
        v = _value(K, dtype, 'v')
        e = _enc(dtype, v)
        if op == 'append':
            r = call(lambda: a.append(v))
            exp = O.ref_concat(x, e)
            needs_whole = True
        elif op == 'extend':
            v2 = _value(K, dtype, 'v2')
            r = call(lambda: a.extend([v, v2]))
            exp = O.ref_concat(x, e, _enc(dtype, v2))
            needs_whole = True
        elif op == 'extend-array':
            other = bitstring.Array(dtype, [v])
            r = call(lambda: a.extend(other))
            exp = O.ref_concat(x, e)
            needs_whole = True
        elif op == 'extend-array-trailing':
            # the other Array's items are appended, not its trailing bits (list model: a.extend(other.tolist()))
            other = bitstring.Array(dtype, [v], trailing_bits='0b1' if w > 1 else None)
            if w == 1:
                return True
            r = call(lambda: a.extend(other))
            exp = O.ref_concat(x, e)
            needs_whole = True
        elif op == 'insert':
            i = K.int('i')
            r = call(lambda: a.insert(i, v))
            j = i if i >= 0 else (i + k if i + k >= 0 else 0)
            if j > k:
                j = k
            j = K.conc(j)
            exp = O.ref_concat(x[:j * w], e, x[j * w:])
            needs_whole = False
        else:  # pop
            i = K.opt_int('i')
            r = call(lambda: a.pop() if i is None else a.pop(i))
            ii = -1 if i is None else i
            if k == 0 or not ((-k <= ii) and (ii < k)):
                return K.check(r.raised(IndexError) and same(raw(a.data), x), 'pop from an empty Array / out of range must raise IndexError', exc=r.excname)
            j = K.conc(ii + k if ii < 0 else ii)
            if not r.ok:
                return K.fail('pop raised', exc=r.excname)
            return K.check(_eqval(r.value, _decode(dtype, x[j * w:(j + 1) * w])) and same(raw(a.data), O.ref_concat(x[:j * w], x[(j + 1) * w:])), 'pop must return and remove item i', got=raw(a.data))
        if needs_whole and t:
            return K.check(r.raised(ValueError) and same(raw(a.data), x), 'append/extend on an Array with trailing bits must raise ValueError and change nothing', exc=r.excname)
        if not r.ok:
            return K.fail(op + ' raised', exc=r.excname)
        return K.check(same(raw(a.data), exp), op + ' content', got=raw(a.data), expected=exp)
    return h


def h_misc(dtype, k, t):
    def h(K):
        import bitstring
        import copy
        a, x, w = _arr(K, dtype, k, t)
        # copy is independent and equal
        b = copy.copy(a)
        if not K.check(b is not a and b.equals(a) and a.equals(b) and same(raw(b.data), x), 'copy must be equal'):
            return False
        if len(x):
            b.data.invert(0)
            if not K.check(same(raw(a.data), x), 'copy shares data with the original'):
                return False
        # equals: same dtype and data
        c = bitstring.Array(dtype)
        y = K.bits('other', len(x))
        c.data = mk(K, bitstring.BitArray, y)
        r = call(lambda: a.equals(c))
        if not K.check(r.ok and L.Iff(r.value, same(x, y)), 'equals must compare dtype and all data bits'):
            return False
        # reverse
        d = copy.copy(a)
        r = call(lambda: d.reverse())
        if t:
            if not K.check(r.raised(ValueError) and same(raw(d.data), x), 'reverse with trailing bits must raise ValueError', exc=r.excname):
                return False
        else:
            exp = O.ref_concat(*[x[i * w:(i + 1) * w] for i in range(k - 1, -1, -1)])
            if not K.check(r.ok and same(raw(d.data), exp), 'reverse must reverse the order of the items', got=raw(d.data), expected=exp):
                return False
        # dtype change re-reads the same data
        e = copy.copy(a)
        e.dtype = 'uint1'
        if not K.check(same(raw(e.data), x) and len(e) == len(x), 'changing the dtype must not alter the data'):
            return False
        return True
    return h


def h_count(dtype, k):
    def h(K):
        a, x, w = _arr(K, dtype, k, 0)
        v = _value(K, dtype, 'v')
        r = call(lambda: a.count(v))
        if not r.ok:
            return K.fail('count raised', exc=r.excname, value=v)
        e = _enc(dtype, v)
        want = 0
        for i in range(k):
            want = want + (1 if same(x[i * w:(i + 1) * w], e) else 0)
        kind = DT[dtype][1]
        if kind == 'float':
            return True   # equal floats may have different encodings (+-0)
        return K.check(r.value == want, 'count must equal the number of items equal to the value', got=r.value, expected=want)
    return h


COUNT_CASES = {
    'float32': ([0.0, -0.0, 1.5, 0.0], [0.0, -0.0, 1.5, 0.1, 1, 2, True]),
    'float16': ([0.1, 1.0, -0.0], [0.1, 0.0999755859375, 1, 0.0, 1.0000001]),
    'uint8': ([1, 2, 1, 0], [1, 1.0, 1.5, '1', True, None, 0, False, 256, -1]),
    'int4': ([-1, 0, 7], [-1, 15, -1.0, 7, 8, '7']),
    'hex8': (['ab', 'cd', 'ab'], ['ab', 'AB', '0xab', 'a', 171, b'ab']),
    'bin3': (['101', '000'], ['101', '0b101', 5, '1_01']),
    'bool': ([True, False, True], [1, True, 0, 1.0, '1', None]),
    'bytes2': ([b'ab', b'cd'], [b'ab', 'ab', bytearray(b'ab'), b'a']),
    'e4m3mxfp': ([0.0, -0.0, 1.0], [0.0, -0.0, 1.0, 1.01, 1]),
}


def h_count_probe(dtype):
    """count(v) == tolist().count(v) for probes that are equal-but-not-identical to an item (signed zero, 1 / 1.0 / True), not representable in the dtype,
    non-canonical spellings or of another type (NaN excluded: the library documents that it counts NaNs)"""
    def h(K):
        import bitstring
        items, probes = COUNT_CASES[dtype]
        a = bitstring.Array(dtype, items)
        tr = K.choice('trailing', ['', '0b1'])
        if tr:
            a.data.append(tr)
        v = K.choice('probe', probes)
        r = call(lambda: a.count(v))
        want = a.tolist().count(v)
        if not r.ok:
            return K.fail('count raised', exc=r.excname, probe=repr(v))
        return K.check(r.value == want, 'count(v) differs from the list model tolist().count(v)', probe=repr(v), got=r.value, expected=want, items=repr(a.tolist()))
    return h


ARITH = {'add': operator.add, 'sub': operator.sub, 'mul': operator.mul, 'floordiv': operator.floordiv, 'lshift': operator.lshift, 'rshift': operator.rshift, 'mod': operator.mod}
IARITH = {'add': operator.iadd, 'sub': operator.isub, 'mul': operator.imul, 'floordiv': operator.ifloordiv, 'lshift': operator.ilshift, 'rshift': operator.irshift, 'mod': operator.imod}
CMP = {'lt': operator.lt, 'ge': operator.ge, 'eq': operator.eq, 'ne': operator.ne}


def h_arith(dtype, k, opn, inplace):
    def h(K):
        import bitstring
        import bitarray.util as U
        a, x, w = _arr(K, dtype, k, 0)
        kind = DT[dtype][1]
        signed = kind == 'int'
        s = K.int('scalar', -3, 5)
        op = (IARITH if inplace else ARITH)[opn]
        a0 = a

        def f():
            nonlocal a
            r = op(a, s)
            return r
        r = call(f)
        items = [U.ba2int(seg, signed=signed) if not dtype.startswith('uintle') else None for seg in _items(x, w, k)]
        # python model
        bad = False
        res = []
        for it in items:
            try:
                v = ARITH[opn](it, s)
            except (ZeroDivisionError, ValueError):
                bad = True
                break
            if not _fits(dtype, v):
                bad = True
                break
            res.append(v)
        if bad:
            return K.check(r.raised(ValueError) and same(raw(a0.data), x), 'a result that does not fit (or an invalid operation) must raise ValueError and leave the Array unchanged', exc=r.excname)
        if not r.ok:
            return K.fail('element-wise operator raised', exc=r.excname, op=opn)
        out = r.value
        exp = O.ref_concat(*[U.int2ba(v, length=w, signed=signed) for v in res]) if k else O.empty()
        if inplace and out is not a0:
            return K.fail('in-place operator must return the same Array')
        ok = same(raw(out.data), exp)
        if not inplace:
            ok = ok and same(raw(a0.data), x)
        return K.check(ok, 'element-wise operator result', op=opn, got=raw(out.data), expected=exp)
    return h


def h_reflected(dtype, k, opn):
    """scalar (op) Array: maps the Python operator with the scalar on the left over the items"""
    def h(K):
        import bitstring
        import bitarray.util as U
        a, x, w = _arr(K, dtype, k, 0)
        signed = DT[dtype][1] == 'int'
        s = K.choice('scalar', [-3, -1, 0, 1, 2, 5, (1 << (w - 1)) - 1, (1 << w) - 1, 1 << w])
        f = {'rsub': lambda: s - a, 'radd': lambda: s + a, 'rmul': lambda: s * a}[opn]
        py = {'rsub': lambda it: s - it, 'radd': lambda it: s + it, 'rmul': lambda it: s * it}[opn]
        r = call(f)
        items = [U.ba2int(seg, signed=signed) for seg in _items(x, w, k)]
        res = [py(it) for it in items]
        fits = True
        for v in res:
            fits = fits and _fits(dtype, v)
        if not fits:
            return K.check(r.raised(ValueError) and same(raw(a.data), x), 'a result that does not fit must raise ValueError', exc=r.excname)
        if not r.ok:
            return K.fail('reflected element-wise operator raised although every result fits', exc=r.excname, op=opn, scalar=s)
        exp = O.ref_concat(*[U.int2ba(v, length=w, signed=signed) for v in res]) if k else O.empty()
        return K.check(same(raw(r.value.data), exp) and same(raw(a.data), x), 'reflected element-wise operator result', op=opn, got=raw(r.value.data), expected=exp)
    return h


def h_cases(case):
    """concrete cases of the list model for comparisons across dtypes, scalar comparands of bytes type, and deep copies"""
    def h(K):
        import bitstring
        import copy
        A = bitstring.Array
        if case == 'eq-mixed-dtypes':
            which = K.choice('op', ['eq', 'ne', 'lt', 'ge'])
            a, b = A('uint8', [1, 2, 3]), A('uint16', [1, 3, 3])
            r = call(lambda: CMP[which](a, b))
            want = [CMP[which](p, q) for p, q in zip([1, 2, 3], [1, 3, 3])]
            return K.check(r.ok and r.value.tolist() == want, 'comparison between Arrays of different dtypes must map the operator over the item pairs', op=which, exc=r.excname)
        if case == 'eq-bytes-scalar':
            a = A('bytes2', [b'ab', b'cd', b'ab'])
            v = K.choice('v', [b'ab', b'cd', b'zz'])
            r = call(lambda: a == v)
            return K.check(r.ok and r.value.tolist() == [it == v for it in a.tolist()], 'Array == bytes scalar must compare every item with it', exc=r.excname)
        if case == 'deepcopy':
            d = K.choice('dtype', ['uint8', 'float16', 'hex8', 'bool'])
            vals = {'uint8': [1, 2], 'float16': [0.5, -2.0], 'hex8': ['ab', 'cd'], 'bool': [True, False]}[d]
            a = A(d, vals, trailing_bits='0b1' if d != 'bool' else None)
            how = K.choice('how', ['copy.copy', 'copy.deepcopy', '__copy__'])
            r = call({'copy.copy': lambda: copy.copy(a), 'copy.deepcopy': lambda: copy.deepcopy(a), '__copy__': lambda: a.__copy__()}[how])
            if not r.ok:
                return K.fail('copying an Array raised', how=how, exc=r.excname)
            b = r.value
            if not K.check(b is not a and b.equals(a) and b.data == a.data and b.data is not a.data, 'copy must be an equal, independent Array', how=how):
                return False
            b.append(vals[0]) if not b.trailing_bits else b.data.invert(0)
            return K.check(a.tolist() == vals, 'mutating the copy changed the original', how=how)
        raise ValueError(case)
    return h


def h_compare(dtype, k, opn):
    def h(K):
        import bitarray.util as U
        a, x, w = _arr(K, dtype, k, 0)
        signed = DT[dtype][1] == 'int'
        s = K.int('scalar', -3, 20)
        r = call(lambda: CMP[opn](a, s))
        if not r.ok:
            return K.fail('comparison operator raised', exc=r.excname)
        out = r.value
        if not (out.dtype.name == 'bool' and len(out) == k):
            return K.fail('comparison must give a bool Array of the same length')
        ok = True
        for i, seg in enumerate(_items(x, w, k)):
            want = CMP[opn](U.ba2int(seg, signed=signed), s)
            ok = ok and ((out.data[i] == 1) == want if not K.symbolic else L.Iff(raw(out.data)[i] == 1, want))
        return K.check(ok and same(raw(a.data), x), 'element-wise comparison', op=opn)
    return h


def h_bitwise(dtype, k, opn):
    def h(K):
        import bitstring
        a, x, w = _arr(K, dtype, k, 0)
        m = K.bits('mask', w)
        mo = mk(K, bitstring.Bits, m)
        fn = {'and': operator.and_, 'or': operator.or_, 'xor': operator.xor}[opn]
        r = call(lambda: fn(a, mo))
        if not r.ok:
            return K.fail('bitwise operator raised', exc=r.excname)
        exp = O.ref_concat(*[fn(seg, m) for seg in _items(x, w, k)]) if k else O.empty()
        if not K.check(same(raw(r.value.data), exp) and same(raw(a.data), x), 'element-wise bitwise operator', op=opn):
            return False
        bad = mk(K, bitstring.Bits, K.bits('mask2', w + 1))
        r2 = call(lambda: fn(a, bad))
        return K.check(r2.raised(ValueError) and same(raw(a.data), x), 'a mask of the wrong length must raise ValueError')
    return h


def _is_le(d):
    import sys
    return ('le' in d) or d.startswith('<') or ('ne' in d and sys.byteorder == 'little')


def _bswap(seg):
    # byte-reverse a bitarray whose length is a multiple of 8 (symbolic contents allowed: slicing only)
    n = len(seg) // 8
    return O.ref_concat(*[seg[8 * (n - 1 - i):8 * (n - i)] for i in range(n)]) if n else seg


def h_between(d1, d2, k, opn):
    def h(K):
        import bitstring
        import bitarray.util as U
        a, x, w1 = _arr(K, d1, k, 0)
        w2 = DT[d2][0]
        y = K.bits('data2', w2 * k)
        b = bitstring.Array(d2)
        b.data = mk(K, bitstring.BitArray, y)
        s1, s2 = DT[d1][1] == 'int', DT[d2][1] == 'int'
        r = call(lambda: ARITH[opn](a, b))
        # documented promotion: signed wins over unsigned, then the longer, ties -> first
        if s1 != s2:
            rd, rw, rs = (d1, w1, s1) if s1 else (d2, w2, s2)
        elif w2 > w1:
            rd, rw, rs = d2, w2, s2
        else:
            rd, rw, rs = d1, w1, s1
        res = []
        bad = False
        for i in range(k):
            xs, ys = x[i * w1:(i + 1) * w1], y[i * w2:(i + 1) * w2]
            u, v = U.ba2int(_bswap(xs) if _is_le(d1) else xs, signed=s1), U.ba2int(_bswap(ys) if _is_le(d2) else ys, signed=s2)
            try:
                z = ARITH[opn](u, v)
            except (ZeroDivisionError, ValueError):
                bad = True
                break
            if not _fits(rd, z):
                bad = True
                break
            res.append(z)
        if bad:
            return K.check(r.raised(ValueError), 'a result that does not fit the promoted dtype must raise ValueError', exc=r.excname)
        if not r.ok:
            return K.fail('operator between Arrays raised', exc=r.excname)
        out = r.value
        exp = O.ref_concat(*[(_bswap(U.int2ba(z, length=rw, signed=rs)) if _is_le(rd) else U.int2ba(z, length=rw, signed=rs)) for z in res]) if k else O.empty()
        return K.check(out.dtype.name == _dt(rd).name and out.dtype.length == _dt(rd).length and same(raw(out.data), exp), 'operator between Arrays: promoted dtype / values', got=raw(out.data), expected=exp)
    return h


def h_build(dtype):
    """construction from a list of values: data is the concatenation of the encodings"""
    def h(K):
        import bitstring
        vals = [_value(K, dtype, f'v{j}') for j in range(2)]
        r = call(lambda: bitstring.Array(dtype, vals))
        if not r.ok:
            return K.fail('Array(dtype, values) raised', exc=r.excname, dtype=dtype)
        a = r.value
        w = DT[dtype][0]
        exp = O.ref_concat(*[_enc(dtype, v) for v in vals])
        if not K.check(len(a) == 2 and a.itemsize == w and same(raw(a.data), exp), 'Array data is not the concatenation of the item encodings', got=raw(a.data), itemsize=a.itemsize):
            return False
        tl = call(lambda: a.tolist())
        return K.check(tl.ok and len(tl.value) == 2 and all(_eqval(g, v) or isinstance(v, bool) and g == v for g, v in zip(tl.value, vals)), 'tolist does not return the values', got=tl.value if tl.ok else tl.excname)
    return h


def conditions(tier):
    q = tier == 'quick'
    conds = []
    T = 200 if q else 450

    def add(cid, fn, bounds, **params):
        conds.append(Cond(cid, fn, bounds, D, params, timeout=T))

    dts = ['uint5', 'int8', 'hex8', 'bool', 'uintle16', '>H'] if q else [d for d in DT if d != 'bytes2']
    for d in dts:
        for (k, t) in ([(0, 0), (2, 0), (3, 2)] if q else [(0, 0), (1, 0), (2, 0), (3, 0), (3, 2), (0, 1), (5, 0)]):
            if t >= DT[d][0]:
                continue
            add(f'C14.read[{d},k={k},t={t}]', h_read(d, k, t), f'all data of {k} items + {t} trailing bits x every int index', dtype=d)
            add(f'C14.setitem[{d},k={k},t={t}]', h_setitem(d, k, t), 'all data x every int index x every value (ints unbounded)', dtype=d)
            add(f'C14.delitem[{d},k={k},t={t}]', h_delitem(d, k, t), 'all data x every int index', dtype=d)
            for op in ('append', 'extend', 'extend-array', 'extend-array-trailing', 'insert', 'pop'):
                add(f'C14.{op}[{d},k={k},t={t}]', h_grow(d, k, t, op), 'all data x symbolic values / indices', dtype=d)
            add(f'C14.misc[{d},k={k},t={t}]', h_misc(d, k, t), 'copy, equals (all pairs of data), reverse, dtype change', dtype=d)
        for (k, t) in ([(3, 2)] if q else [(3, 0), (3, 2), (4, 1)]):
            if t >= DT[d][0]:
                continue
            add(f'C14.getslice[{d},k={k},t={t}]', h_getslice(d, k, t), f'all data x start,stop,step in [-{k + 2},{k + 2}] or None', dtype=d)
            add(f'C14.delslice[{d},k={k},t={t}]', h_delslice(d, k, t), f'all data x start,stop,step in [-{k + 2},{k + 2}] or None', dtype=d)
            if d in ('uint5', 'int8') or not q:
                for m in ([1] if q else [0, 1, 2]):
                    add(f'C14.setslice[{d},k={k},t={t},m={m}]', h_setslice(d, k, t, m), 'all data x slice x m symbolic values', dtype=d)
        if d not in ('uintle16', '>H', '<i', 'uintbe16', 'intle16', 'int16', 'uintne16', 'intbe24'):
            add(f'C14.count[{d},k=3]', h_count(d, 3), 'all data of 3 items x value', dtype=d)
        add(f'C14.build[{d}]', h_build(d), 'two symbolic values', dtype=d)
    for d in (['uint5', 'int8'] if q else ['uint5', 'int8', 'int3', 'uint1']):
        for opn in ('rsub', 'radd', 'rmul'):
            add(f'C14.reflected[{d},{opn},k=2]', h_reflected(d, 2, opn), 'all data of 2 items x scalar in {-3,-1,0,1,2,5,2^(w-1)-1,2^w-1,2^w}', dtype=d)
    for case in ('eq-mixed-dtypes', 'eq-bytes-scalar', 'deepcopy'):
        add(f'C14.cases[{case}]', h_cases(case), "concrete cases chosen by solver forks")
    for d in COUNT_CASES:
        add(f'C14.count-probe[{d}]', h_count_probe(d), 'concrete items x probes equal to / near / unlike the items (catalogue chosen by solver forks) x trailing bits', dtype=d)
    add('C14.build[bytes2]', h_build('bytes2'), 'two byte strings (byte-multiplier dtype)', dtype='bytes2')
    add('C14.read[bytes2,k=2,t=3]', h_read('bytes2', 2, 3), 'all data of 2 items + 3 trailing bits', dtype='bytes2')
    for d in (['uint5', 'int8'] if q else ['uint5', 'int8', 'int3', 'uint1']):
        for opn in (['add', 'floordiv', 'lshift'] if q else list(ARITH)):
            for inplace in (False, True):
                add(f"C14.arith[{d},{'i' if inplace else ''}{opn},k=2]", h_arith(d, 2, opn, inplace), 'all data of 2 items x scalar in [-3,5]', dtype=d)
        for opn in (['lt', 'eq'] if q else list(CMP)):
            add(f'C14.compare[{d},{opn},k=2]', h_compare(d, 2, opn), 'all data of 2 items x scalar in [-3,20]', dtype=d)
        for opn in (['and'] if q else ['and', 'or', 'xor']):
            add(f'C14.bitwise[{d},{opn},k=2]', h_bitwise(d, 2, opn), 'all data of 2 items x every mask', dtype=d)
    for (d1, d2) in ([('uint5', 'int8'), ('int8', 'uint5'), ('uint5', 'uint5'), ('uintle16', 'uintbe16'), ('uintbe16', 'uintle16'), ('int16', 'intle16')] if q else
                     [('uint5', 'int8'), ('int8', 'uint5'), ('uint5', 'uint5'), ('int3', 'int8'), ('uint1', 'uint5'), ('int8', 'int3'), ('uintle16', 'uintbe16'), ('uintbe16', 'uintle16'),
                      ('int16', 'intle16'), ('intle16', 'int16'), ('uintne16', 'uintbe16'), ('uintle16', 'int16'), ('>H', 'uintle16')]):
        for opn in (['add'] if q else ['add', 'sub', 'mul']):
            add(f'C14.between[{d1},{d2},{opn},k=2]', h_between(d1, d2, 2, opn), 'all data of two 2-item Arrays', d1=d1, d2=d2)
    return conds
