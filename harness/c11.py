"""C11 - 8-bit, micro-scaling and bfloat codecs decode and round exactly as specified.

Decided compositionally (DESIGN.md 5/C11):
  table obligations  - one direct z3 query per lookup table: for every 16-bit index h,
                       decode_def(table[h]) == round_def(h)   (spec written from the format definitions, kit/fpspec.py)
  decode obligations - one direct z3 query per code->float table
  path obligations   - CrossHair on the real float_to_int8 / float_to_int / *2bitstore / _get* code with the table as an
                       opaque If-tree (TreeLUT): right table, right index (float16 RNE of the input), clamp codes, widths, NaN handling
"""
from __future__ import annotations

import math
import struct
import time

from kit.engine import Cond
from kit import oracle as O
from kit import logic as L
from kit import fpspec as S
from kit.state import mk, raw, call, classes, same, get_attr

ASSUMPTIONS = [
    "lookup tables are read after the real zlib decompression at import; zlib and struct.pack('>e') are trusted (struct by the z3 fpToFP(RNE) stub)",
    "table obligations: the table is encoded exactly as an If-tree over its 16-bit (or 8/6/4-bit) index; the specification side never reads the table",
    "path obligations treat the table as opaque (same If-tree on both sides), so they decide index computation, table selection, clamping and widths only",
    "NaN payloads are unspecified",
]

D_TAB = ['bitstring.fp8:Binary8Format.decompress_luts', 'bitstring.mxfp:MXFPFormat.decompress_luts']
D_PATH = ['bitstring.fp8:Binary8Format.float_to_int8', 'bitstring.mxfp:MXFPFormat.float_to_int', 'bitstring.bitstore_helpers:p4binary2bitstore',
          'bitstring.bitstore_helpers:p3binary2bitstore', 'bitstring.bitstore_helpers:e4m3mxfp2bitstore', 'bitstring.bitstore_helpers:e5m2mxfp2bitstore',
          'bitstring.bitstore_helpers:e3m2mxfp2bitstore', 'bitstring.bitstore_helpers:e2m3mxfp2bitstore', 'bitstring.bitstore_helpers:e2m1mxfp2bitstore',
          'bitstring.bits:Bits._getp4binary', 'bitstring.bits:Bits._getp3binary', 'bitstring.bits:Bits._gete4m3mxfp', 'bitstring.bits:Bits._gete5m2mxfp',
          'bitstring.bits:Bits._gete3m2mxfp', 'bitstring.bits:Bits._gete2m3mxfp', 'bitstring.bits:Bits._gete2m1mxfp']
D_MISC = ['bitstring.bitstore_helpers:mxint2bitstore', 'bitstring.bitstore_helpers:e8m0mxfp2bitstore', 'bitstring.bitstore_helpers:bfloat2bitstore',
          'bitstring.bits:Bits._getmxint', 'bitstring.bits:Bits._gete8m0mxfp', 'bitstring.bits:Bits._getbfloatbe', 'bitstring.bits:Bits._getbfloatle',
          'bitstring.dtypes:scaled_get_fn', 'bitstring.dtypes:scaled_set_fn', 'bitstring.dtypes:scaled_read_fn', 'bitstring.dtypes:Dtype._set_scale']

FMT_OBJ = {
    ('p4binary', 'saturate'): ('bitstring.fp8', 'p4binary_fmt', 'lut_float16_to_binary8', 'lut_binary8_to_float'),
    ('p3binary', 'saturate'): ('bitstring.fp8', 'p3binary_fmt', 'lut_float16_to_binary8', 'lut_binary8_to_float'),
    ('e4m3mxfp', 'saturate'): ('bitstring.mxfp', 'e4m3mxfp_saturate_fmt', 'lut_float16_to_mxfp', 'lut_int_to_float'),
    ('e4m3mxfp', 'overflow'): ('bitstring.mxfp', 'e4m3mxfp_overflow_fmt', 'lut_float16_to_mxfp', 'lut_int_to_float'),
    ('e5m2mxfp', 'saturate'): ('bitstring.mxfp', 'e5m2mxfp_saturate_fmt', 'lut_float16_to_mxfp', 'lut_int_to_float'),
    ('e5m2mxfp', 'overflow'): ('bitstring.mxfp', 'e5m2mxfp_overflow_fmt', 'lut_float16_to_mxfp', 'lut_int_to_float'),
    ('e3m2mxfp', 'saturate'): ('bitstring.mxfp', 'e3m2mxfp_fmt', 'lut_float16_to_mxfp', 'lut_int_to_float'),
    ('e2m3mxfp', 'saturate'): ('bitstring.mxfp', 'e2m3mxfp_fmt', 'lut_float16_to_mxfp', 'lut_int_to_float'),
    ('e2m1mxfp', 'saturate'): ('bitstring.mxfp', 'e2m1mxfp_fmt', 'lut_float16_to_mxfp', 'lut_int_to_float'),
}


def _fmt_object(fmt, mode):
    import importlib
    import bitstring  # noqa: F401  (decompresses the tables)
    modname, obj, enc, dec = FMT_OBJ[(fmt, mode)]
    o = getattr(importlib.import_module(modname), obj)
    return o, getattr(o, enc), getattr(o, dec)


# ------------------------------------------------------------------ table obligations (direct z3)
def q_encode_table(fmt, mode):
    def run():
        import z3
        o, enc, dec = _fmt_object(fmt, mode)
        nb = S.FORMATS[fmt]['bits']
        table = list(enc)
        assert len(table) == 65536
        t0 = time.perf_counter()
        h = z3.BitVec('h', 16)
        code8 = S.table_tree(z3, h, table, 8)
        inrange = z3.ULT(code8, z3.BitVecVal(1 << nb, 8)) if nb < 8 else z3.BoolVal(True)
        code = z3.Extract(nb - 1, 0, code8)
        got = S.decode_z3(z3, fmt, code)
        want = S.round_z3(z3, fmt, h, mode)
        x16 = z3.fpBVToFP(h, z3.Float16())
        relevant = z3.BoolVal(True) if S.nan_code(fmt) is not None else z3.Not(z3.fpIsNaN(x16))
        s = z3.Solver()
        s.set('timeout', 1200 * 1000)
        s.add(relevant)
        s.add(z3.Or(z3.Not(inrange), got != want))
        r = s.check()
        dt = time.perf_counter() - t0
        sol = {'sat': int(r == z3.sat), 'unsat': int(r == z3.unsat), 'unknown': int(r == z3.unknown), 'time': round(dt, 2)}
        if r == z3.unsat:
            return {'status': 'confirmed', 'paths': 1, 'reached': 1, 'solver': sol, 'witness': {'query': f'exists h: decode_def({fmt} table[h]) != round_def(h)  [{mode}]', 'result': 'unsat'}}
        if r == z3.sat:
            hv = s.model().eval(h, model_completion=True).as_long()
            return {'status': 'refuted', 'paths': 1, 'reached': 1, 'solver': sol,
                    'failure': {'what': 'float16->code table entry differs from the format definition', 'inputs': {'h': hv}, 'observed': {'table_entry': table[hv]}}}
        return {'status': 'unknown', 'paths': 1, 'unknown': 1, 'solver': sol, 'unknown_reasons': {'z3': 1}}
    return run


def h_encode_table_replay(fmt, mode):
    """concrete re-check of one table index with the exact-rational model (used on replay)"""
    def h(K):
        o, enc, dec = _fmt_object(fmt, mode)
        hv = K.int('h', 0, 65535)
        x = S.f16_value(hv)
        want = S.encode_py(fmt, x, mode)
        if want is None:
            return True
        return K.check(enc[hv] == want, 'float16->code table entry differs from the format definition (exact-rational model)', h=hv, table_entry=enc[hv], expected=want, f16=str(x))
    return h


def q_decode_table(fmt, mode='saturate'):
    def run():
        import z3
        o, enc, dec = _fmt_object(fmt, mode)
        nb = S.FORMATS[fmt]['bits']
        table = [float(v) for v in dec]
        assert len(table) == (1 << nb)
        t0 = time.perf_counter()
        c = z3.BitVec('c', nb)
        got = S.float_table_tree(z3, c, table)
        want = S.decode_z3(z3, fmt, c)
        s = z3.Solver()
        s.set('timeout', 600 * 1000)
        s.add(got != want)
        r = s.check()
        sol = {'sat': int(r == z3.sat), 'unsat': int(r == z3.unsat), 'unknown': int(r == z3.unknown), 'time': round(time.perf_counter() - t0, 2)}
        if r == z3.unsat:
            return {'status': 'confirmed', 'paths': 1, 'reached': 1, 'solver': sol, 'witness': {'query': f'exists c: {fmt} decode table[c] != decode_def(c)', 'result': 'unsat'}}
        if r == z3.sat:
            cv = s.model().eval(c, model_completion=True).as_long()
            return {'status': 'refuted', 'paths': 1, 'reached': 1, 'solver': sol,
                    'failure': {'what': 'code->float table entry differs from the format definition', 'inputs': {'c': cv}, 'observed': {'table_entry': repr(table[cv])}}}
        return {'status': 'unknown', 'paths': 1, 'unknown': 1, 'solver': sol, 'unknown_reasons': {'z3': 1}}
    return run


def _same_float_as_spec(f, v):
    if v == 'nan':
        return f != f
    if v == 'inf':
        return f == math.inf
    if v == '-inf':
        return f == -math.inf
    if isinstance(v, tuple):
        return f == 0 and (math.copysign(1, f) < 0) == bool(v[1])
    return f == float(v)


def h_decode_table_replay(fmt, mode='saturate'):
    def h(K):
        o, enc, dec = _fmt_object(fmt, mode)
        cv = K.int('c', 0, (1 << S.FORMATS[fmt]['bits']) - 1)
        return K.check(_same_float_as_spec(float(dec[cv]), S.decode_py(fmt, cv)), 'code->float table entry differs from the format definition', c=cv, table_entry=repr(dec[cv]))
    return h


# ------------------------------------------------------------------ path obligations (CrossHair)
class TreeLUT:
    """a bytes table that can be indexed by a symbolic int (balanced If-tree); concrete index -> plain lookup"""

    def __init__(self, table):
        self.table = bytes(table)
        self.width = max(max(self.table).bit_length(), 1)   # exact output width: range checks on the result stay trivial

    def __len__(self):
        return len(self.table)

    def __getitem__(self, idx):
        from crosshair.tracers import NoTracing
        from crosshair.libimpl.builtinslib import SymbolicInt
        import z3
        with NoTracing():
            if not isinstance(idx, SymbolicInt):
                return self.table[idx]
            return SymbolicInt(S.int_table_tree(z3, idx.var, list(self.table)))


def _install_trees():
    import bitstring  # noqa: F401
    from bitstring import fp8, mxfp
    for o in (fp8.p4binary_fmt, fp8.p3binary_fmt):
        if not isinstance(o.lut_float16_to_binary8, TreeLUT):
            o.lut_float16_to_binary8 = TreeLUT(o.lut_float16_to_binary8)
    for nm in ('e2m1mxfp_fmt', 'e2m3mxfp_fmt', 'e3m2mxfp_fmt', 'e4m3mxfp_saturate_fmt', 'e5m2mxfp_saturate_fmt', 'e4m3mxfp_overflow_fmt', 'e5m2mxfp_overflow_fmt'):
        o = getattr(mxfp, nm)
        if not isinstance(o.lut_float16_to_mxfp, TreeLUT):
            o.lut_float16_to_mxfp = TreeLUT(o.lut_float16_to_mxfp)


def _f16_index(K, f):
    """index into the float16 tables for the float f: bits of RNE16(f); None if the narrowing overflows (finite -> inf)"""
    try:
        b = struct.pack('>e', f)
    except (OverflowError, struct.error):
        return None
    return int.from_bytes(b, byteorder='big')


def h_encode_path(fmt, mode, cname):
    def h(K):
        import bitstring
        cls = classes()[cname]
        nb = S.FORMATS[fmt]['bits']
        f = K.float('f')
        bitstring.options.mxfp_overflow = mode
        o, enc, dec = _fmt_object(fmt, mode)
        isnan = math.isnan(f)
        routes = {'kw': lambda: cls(**{fmt: f}), 'Dtype.build': lambda: bitstring.Dtype(fmt).build(f), 'pack': lambda: bitstring.pack(fmt, f),
                  'kw-name-length': lambda: cls(**{f'{fmt}{nb}': f})}
        if isnan and S.nan_code(fmt) is None:
            for rn, g in routes.items():
                r = call(g)
                if not r.raised(ValueError):
                    return K.fail('NaN has no representation in this format and must raise ValueError', route=rn, exc=r.excname)
            return True
        idx = _f16_index(K, f)
        if idx is None:
            want = S.overflow_code(fmt, not (f > 0), mode)      # documented result for values out of range
        else:
            if (not isnan) and (idx % 32768) > 0x7c00:
                return K.fail('half-precision rounding of a non-NaN float is NaN')   # also hands the solver the fact that idx is not a NaN row
            want = enc[idx]
        for rn, g in routes.items():
            r = call(g)
            if not r.ok:
                return K.fail('encoder raised', route=rn, exc=r.excname)
            s = r.value
            if len(s) != nb:
                return K.fail('wrong width', route=rn, got=len(s))
            if not K.check(s.uint == want, 'code is not table[float16(f)] / the documented out-of-range code', route=rn, got=s.uint, expected=want, mode=mode):
                return False
        return True
    return h


def h_decode_path(fmt, cname):
    def h(K):
        import bitstring
        cls = classes()[cname]
        nb = S.FORMATS[fmt]['bits']
        c = K.conc(K.int('c', 0, (1 << nb) - 1))
        mode = K.choice('mode', ['saturate', 'overflow'])
        bitstring.options.mxfp_overflow = mode
        want = S.decode_py(fmt, c)
        s = cls(uint=c, length=nb)
        for rd, g in {'property': lambda: get_attr(s, fmt), 'property+length': lambda: get_attr(s, f'{fmt}{nb}'), 'Dtype.parse': lambda: bitstring.Dtype(fmt).parse(s),
                      'unpack': lambda: s.unpack(fmt)[0], 'read': lambda: bitstring.ConstBitStream(s).read(fmt)}.items():
            r = call(g)
            if not r.ok:
                return K.fail('decoder raised', route=rd, exc=r.excname)
            if not _same_float_as_spec(r.value, want):
                return K.fail('decoded value differs from the format definition', route=rd, got=repr(r.value), code=c)
        # decode then re-encode returns the code (non-NaN; e5m2 infinities under saturate excepted)
        v = get_attr(s, fmt)
        if v != v:
            return True
        if fmt == 'e5m2mxfp' and mode == 'saturate' and math.isinf(v):
            return True
        r = call(lambda: cls(**{fmt: v}))
        return K.check(r.ok and r.value.uint == c, 'decode then re-encode does not return the code', code=c, got=(r.value.uint if r.ok else None), mode=mode)
    return h


def h_scaled_decode(fmt, scale):
    def h(K):
        import bitstring
        nb = S.FORMATS[fmt]['bits'] if fmt in S.FORMATS else 8
        d = bitstring.Dtype(fmt, scale=scale)
        d0 = bitstring.Dtype(fmt)
        c = K.conc(K.int('c', 0, (1 << nb) - 1))
        s = bitstring.Bits(uint=c, length=nb)
        v0 = d0.parse(s)
        if v0 != v0:
            return True
        for rd, g in {'parse': lambda: d.parse(s), 'read': lambda: bitstring.ConstBitStream(s).read(d), 'get_fn': lambda: d.get_fn(s)}.items():
            r = call(g)
            if not (r.ok and r.value == v0 * scale):
                return K.fail('scaled decode is not scale x unscaled decode', route=rd, code=c, got=repr(r.value) if r.ok else r.excname)
        return True
    return h


SCALED_TIES = [   # (format, scale, value): scales whose reciprocal is inexact, values whose quotient sits on a rounding tie or an exact code
    ('e8m0mxfp', 49, 49.0), ('e8m0mxfp', 49, 98.0), ('e8m0mxfp', 0.1, 0.1), ('e8m0mxfp', 3, 6.0), ('mxint', 49, -97.6171875), ('mxint', 49, 49 * 0.5078125), ('mxint', 3, 3 * 0.0078125),
    ('e4m3mxfp', 49, 49 * 1.0625), ('e4m3mxfp', 0.1, 0.1 * 1.1875), ('e2m1mxfp', 49, 49 * 1.25), ('e2m1mxfp', 3, 3 * 2.5), ('e5m2mxfp', 49, 49 * 1.125), ('p3binary', 7, 7 * 1.125),
    ('e3m2mxfp', 10, 10 * 1.125), ('float16', 49, 49 * 1.00048828125), ('float32', 0.1, 0.1 * 1.5), ('bfloat', 3, 3 * 1.00390625),
]


def h_scaled_ties():
    """a scaled dtype encodes value / scale (one correctly rounded division), not value * (1 / scale)"""
    def h(K):
        import bitstring
        fmt, scale, value = K.choice('case', SCALED_TIES)
        bitstring.options.mxfp_overflow = 'saturate'
        a = call(lambda: bitstring.Dtype(fmt, scale=scale).build(value))
        b = call(lambda: bitstring.Dtype(fmt).build(value / scale))
        if a.ok != b.ok:
            return K.fail('a scaled dtype and the unscaled dtype on value / scale disagree on whether the value can be encoded', fmt=fmt, scale=scale, value=repr(value), scaled_exc=a.excname, unscaled_exc=b.excname)
        if not a.ok:
            return True
        if not K.check(same(raw(a.value), raw(b.value)), 'scaled encode is not the unscaled encode of value / scale', fmt=fmt, scale=scale, value=repr(value), got=raw(a.value), expected=raw(b.value)):
            return False
        arr = call(lambda: bitstring.Array(bitstring.Dtype(fmt, scale=scale), [value]))
        return K.check(arr.ok and same(raw(arr.value.data), raw(b.value)), 'Array with a scaled dtype', fmt=fmt, scale=scale)
    return h


def h_scaled_encode(fmt, scale):
    def h(K):
        import bitstring
        d = bitstring.Dtype(fmt, scale=scale)
        f = K.float('f')
        if math.isnan(f):
            return True
        mode = 'saturate'
        bitstring.options.mxfp_overflow = mode
        a = call(lambda: d.build(f))
        if not a.ok:
            return K.fail('scaled build raised', exc=a.excname)
        g = f / scale
        if fmt in S.FORMATS:
            o, enc, dec = _fmt_object(fmt, mode)
            idx = _f16_index(K, g)
            want = S.overflow_code(fmt, not (g > 0), mode) if idx is None else enc[idx]
            return K.check(a.value.uint == want, 'scaled encode is not the unscaled encode of f / scale', got=a.value.uint, expected=want)
        exp = O.empty()
        exp.frombytes(struct.pack('>d', g))
        return K.check(same(raw(a.value), exp), 'scaled float64 encode is not the encoding of f / scale')
    return h


def h_mxint(cname):
    def h(K):
        import bitstring
        import bitarray.util as U
        cls = classes()[cname]
        f = K.float('f')
        if math.isnan(f):
            r = call(lambda: cls(mxint=f))
            return K.check(r.raised(ValueError), 'NaN must raise ValueError for mxint', exc=r.excname)
        r = call(lambda: cls(mxint=f))
        if not r.ok:
            return K.fail('mxint encoder raised', exc=r.excname)
        g = f * 64.0
        if g > 127.0:
            want = 127
        elif g < -128.0:
            want = -128
        else:
            want = round(g)           # nearest, ties to even, of 64x directly
        return K.check(len(r.value) == 8 and U.ba2int(raw(r.value), signed=True) == want, 'mxint code is not round-half-even(64 f) clamped to [-128, 127]', got=raw(r.value), expected=want)
    return h


def h_mxint_decode():
    def h(K):
        import bitstring
        c = K.conc(K.int('c', -128, 127))
        s = bitstring.Bits(int=c, length=8)
        v = s.mxint
        if not K.check(v == c / 64.0, 'mxint decode', code=c, got=v):
            return False
        r = call(lambda: bitstring.Bits(mxint=v))
        return K.check(r.ok and r.value.int == c, 'mxint decode then re-encode')
    return h


def h_e8m0():
    def h(K):
        import bitstring
        f = K.float('f')
        r = call(lambda: bitstring.Bits(e8m0mxfp=f))
        if math.isnan(f):
            return K.check(r.ok and r.value.uint == 255, 'NaN must encode to 0xff', exc=r.excname)
        k = None
        for i in range(-127, 128):
            if f == 2.0 ** i:
                k = i
                break
        if k is None:
            return K.check(r.raised(ValueError), 'a value that is not an exact power of two in range must raise ValueError', exc=r.excname)
        return K.check(r.ok and len(r.value) == 8 and r.value.uint == k + 127, 'e8m0 code of an exact power of two', got=(r.value.uint if r.ok else None), expected=k + 127)
    return h


def h_e8m0_near():
    """the neighbours of a power of two (one ulp above / below, and a few ulps away) are not powers of two: ValueError on every route.
    Concrete values chosen by solver forks (an encoder that computes log2 of its argument concretises a symbolic float)"""
    def h(K):
        import bitstring
        k = K.choice('k', [-127, -126, -60, -4, -1, 0, 1, 4, 20, 60, 126, 127])
        d = K.choice('ulps', [1, -1, 2, -3, 16])
        p2 = math.ldexp(1.0, k)
        f = p2
        for _ in range(abs(d)):
            f = math.nextafter(f, math.inf if d > 0 else 0.0)
        route = K.choice('route', ['kw', 'pack', 'build', 'prop', 'array', 'str'])
        fn = {'kw': lambda: bitstring.Bits(e8m0mxfp=f), 'pack': lambda: bitstring.pack('e8m0mxfp', f), 'build': lambda: bitstring.Dtype('e8m0mxfp').build(f),
              'prop': lambda: _set_prop(bitstring.BitArray(8), 'e8m0mxfp', f), 'array': lambda: bitstring.Array('e8m0mxfp', [f]), 'str': lambda: bitstring.Bits('e8m0mxfp=' + repr(f))}[route]
        r = call(fn)
        ok = call(lambda: bitstring.Bits(e8m0mxfp=p2))
        if not K.check(ok.ok and ok.value.uint == k + 127, 'the exact power of two must encode as k + 127', k=k):
            return False
        return K.check(r.raised(ValueError), 'a value that is not exactly a power of two must raise ValueError (no rounding)', value=f.hex(), k=k, route=route, got=(raw(getattr(r.value, 'data', r.value)) if r.ok else None))
    return h


def _set_prop(obj, name, v):
    from kit.state import set_attr
    set_attr(obj, name, v)
    return obj


def h_e8m0_decode():
    def h(K):
        import bitstring
        c = K.conc(K.int('c', 0, 255))
        v = bitstring.Bits(uint=c, length=8).e8m0mxfp
        if c == 255:
            return K.check(v != v, 'code 255 must decode to NaN')
        return K.check(v == 2.0 ** (c - 127) and bitstring.Bits(e8m0mxfp=v).uint == c, 'e8m0 decode / re-encode', code=c)
    return h


def h_bfloat(t, cname):
    big = t in ('bfloat', 'bfloatbe') or (t == 'bfloatne' and struct.pack('=H', 1) == b'\x00\x01')

    def h(K):
        import bitstring
        cls = classes()[cname]
        f = K.float('f')
        if math.isnan(f):
            return True
        try:
            b4 = struct.pack('>f', f)
        except OverflowError:
            b4 = struct.pack('>f', math.inf if f > 0 else -math.inf)
        top = b4[0:2]
        exp = O.empty()
        exp.frombytes(top if big else top[::-1])
        for rn, g in {'kw': lambda: cls(**{t: f}), 'Dtype.build': lambda: bitstring.Dtype(t).build(f), 'pack': lambda: bitstring.pack(t, f)}.items():
            r = call(g)
            if not r.ok:
                return K.fail('bfloat encoder raised', route=rn, exc=r.excname)
            if not K.check(same(raw(r.value), exp), 'bfloat bits are not the truncated float32', route=rn, got=raw(r.value), expected=exp):
                return False
        return True
    return h


def h_bfloat_decode(t):
    big = t in ('bfloat', 'bfloatbe') or (t == 'bfloatne' and struct.pack('=H', 1) == b'\x00\x01')

    def h(K):
        import bitstring
        x = K.bits('x', 16)
        s = mk(K, bitstring.Bits, x)
        r = call(lambda: get_attr(s, t))
        if not r.ok:
            return K.fail('bfloat decode raised', exc=r.excname)
        v = r.value
        bb = x.tobytes()
        hi = bb if big else bb[::-1]
        want = struct.unpack('>f', hi + b'\x00\x00')[0]
        if math.isnan(want):
            return K.check(math.isnan(v), 'NaN pattern must decode to NaN')
        if not K.check(v == want, 'bfloat decode is not the float32 with 16 zero bits appended'):
            return False
        r2 = call(lambda: bitstring.Bits(**{t: v}))
        return K.check(r2.ok and same(raw(r2.value), x), 'bfloat decode then re-encode')
    return h


def conditions(tier):
    q = tier == 'quick'
    conds = []
    T = 600 if q else 3000

    def add(cid, fn, bounds, drives, direct=None, setup=None, timeout=T, **params):
        conds.append(Cond(cid, fn, bounds, drives, params, timeout=timeout, path_timeout=300.0, direct=direct, setup=setup))

    for (fmt, mode) in FMT_OBJ:
        add(f'C11.table-encode[{fmt},{mode}]', h_encode_table_replay(fmt, mode), 'all 65536 half-precision inputs (one direct z3 query; table as If-tree vs the format definition)', D_TAB,
            direct=q_encode_table(fmt, mode), fmt=fmt, mode=mode)
    for fmt in S.FORMATS:
        for mode in (['saturate', 'overflow'] if fmt in ('e4m3mxfp', 'e5m2mxfp') else ['saturate']):
            add(f'C11.table-decode[{fmt},{mode}]', h_decode_table_replay(fmt, mode), f"all {1 << S.FORMATS[fmt]['bits']} codes (one direct z3 query)", D_TAB, direct=q_decode_table(fmt, mode), fmt=fmt, mode=mode)
    for (fmt, mode) in FMT_OBJ:
        for c in (['Bits'] if q else ['Bits', 'BitArray']):
            add(f'C11.encode-path[{c},{fmt},{mode}]', h_encode_path(fmt, mode, c), 'every float64 input (NaN, infinities, values beyond the half-precision range included); 4 creation routes',
                D_PATH, setup=_install_trees, fmt=fmt, mode=mode)
    for fmt in S.FORMATS:
        add(f'C11.decode-path[Bits,{fmt}]', h_decode_path(fmt, 'Bits'), 'every code x both mxfp_overflow settings; 5 reading routes; decode then re-encode', D_PATH, fmt=fmt)
    for fmt, scale in ([('e4m3mxfp', 0.125), ('e2m1mxfp', 64.0)] if q else [('e4m3mxfp', 0.125), ('e2m1mxfp', 64.0), ('p4binary', 3.0), ('e3m2mxfp', 2.0 ** -3), ('e5m2mxfp', 64.0)]):
        add(f'C11.scaled-decode[{fmt},scale={scale}]', h_scaled_decode(fmt, scale), 'every code; 3 reading routes', D_MISC + D_PATH, fmt=fmt)
        add(f'C11.scaled-encode[{fmt},scale={scale}]', h_scaled_encode(fmt, scale), 'every float64 input', D_MISC + D_PATH, setup=_install_trees, fmt=fmt)
    add('C11.scaled-ties', h_scaled_ties(), f'{len(SCALED_TIES)} concrete (format, scale, value) cases with an inexact reciprocal (chosen by solver forks)', D_MISC + D_PATH)
    for scale in ([0.125] if q else [0.125, 64.0, 3.0]):
        add(f'C11.scaled-encode[float64,scale={scale}]', h_scaled_encode('float64', scale), 'every float64 input (generic scale wrapper on an exact dtype)', D_MISC)
    for c in (['Bits'] if q else ['Bits', 'BitArray']):
        add(f'C11.mxint-encode[{c}]', h_mxint(c), 'every float64 input', D_MISC, timeout=1500 if q else 6000)
    add('C11.mxint-decode', h_mxint_decode(), 'every code', D_MISC)
    add('C11.e8m0-encode', h_e8m0(), 'every float64 input', D_MISC)
    add('C11.e8m0-decode', h_e8m0_decode(), 'every code', D_MISC)
    add('C11.e8m0-near-miss', h_e8m0_near(), '12 exponents x 5 ulp distances x 6 routes (concrete, chosen by solver forks)', D_MISC)
    for t in (['bfloat', 'bfloatle'] if q else ['bfloat', 'bfloatbe', 'bfloatle', 'bfloatne']):
        add(f'C11.bfloat-encode[{t}]', h_bfloat(t, 'Bits'), 'every float64 input', D_MISC, t=t)
        add(f'C11.bfloat-decode[{t}]', h_bfloat_decode(t), 'every 16-bit pattern', D_MISC, t=t)
    return conds
