"""C12 - LSB0 mode is a pure index mirror of MSB0 mode.

Every condition runs the real operation with options.lsb0 = True on content X and compares with
reverse(ref_op(reverse(X), same position arguments)), where ref_op is the *absolute* msb0
reference of C01/C03/C07 (so an error common to both modes cannot cancel).
"""
from __future__ import annotations

from kit.engine import Cond
from kit import oracle as O
from kit import logic as L
from kit.state import mk, raw, call, classes, is_stream, is_mutable, same, get_attr
from harness.common import CLS, _obj, _unchanged

ASSUMPTIONS = [
    "options.lsb0 is switched on inside each path and restored afterwards; the msb0 side of every comparison is the sequence-level oracle, not the library",
    "the reverse chunk loop of the lsb0 findall is exercised with its increment shrunk to 4..8 bits through the guarded hook bitstring._verif_findall_chunk_bits (the production increment max(8192, 80*len(pattern)) itself is outside the bounds)",
]

D = ['bitstring.bitstore:offset_slice_indices_lsb0', 'bitstring.bitstore:indices', 'bitstring.bitstore:BitStore.getindex_lsb0', 'bitstring.bitstore:BitStore.getslice_lsb0',
     'bitstring.bitstore:BitStore.getslice_withstep_lsb0', 'bitstring.bitstore:BitStore.setitem_lsb0', 'bitstring.bitstore:BitStore.delitem_lsb0',
     'bitstring.bitstore:BitStore.invert_lsb0', 'bitstring.bits:Bits._find_lsb0', 'bitstring.bits:Bits._rfind_lsb0', 'bitstring.bits:Bits._findall_lsb0',
     'bitstring.bitarray_:BitArray._append_lsb0', 'bitstring.bitarray_:BitArray._replace', 'bitstring.bitstring_options:Options.set_lsb0', 'bitstring.methods:pack']

rv = O.ref_reverse


def _lsb0(on=True):
    import bitstring
    bitstring.options.lsb0 = on


def h_index(cname, n):
    def h(K):
        cls, x, pos, s = _obj(K, cname, n)
        i = K.int('i')
        _lsb0()
        r = call(lambda: s[i])
        _lsb0(False)
        if not ((-n <= i) and (i < n)):
            return K.check(r.raised(IndexError), 'out-of-range index must raise IndexError in lsb0 too', exc=r.excname)
        if not r.ok:
            return K.fail('lsb0 index raised', exc=r.excname)
        j = i + n if i < 0 else i
        return K.check(int(r.value) == rv(x)[j], 'lsb0 s[i] must be bit i counted from the least significant end', i=i, got=r.value)
    return h


def h_slice(cname, n, lim, sc=None):
    def h(K):
        cls, x, pos, s = _obj(K, cname, n)
        a, b = K.opt_int('start', -lim, lim), K.opt_int('stop', -lim, lim)
        c = None if sc == 'none' else (K.int('step', 1, lim) if sc == 'pos' else K.int('step', -lim, -1))
        _lsb0()
        r = call(lambda: s[a:b:c])
        _lsb0(False)
        if not r.ok:
            return K.fail('lsb0 slice raised', exc=r.excname)
        exp = rv(O.ref_slice(K, rv(x), a, b, c))
        return K.check((type(r.value) is cls) and same(raw(r.value), exp) and same(raw(s), x), 'lsb0 slice is not the mirror of the msb0 slice', got=raw(r.value), expected=exp)
    return h


def h_setdel(cname, n, m, lim, op, sc=None):
    def h(K):
        import bitstring
        cls, x, pos, s = _obj(K, cname, n)
        a, b = K.opt_int('start', -lim, lim), K.opt_int('stop', -lim, lim)
        c = None if sc == 'none' else (K.int('step', 1, lim) if sc == 'pos' else K.int('step', -lim, -1))
        y = K.bits('y', m)
        other = mk(K, bitstring.Bits, y)
        rx = rv(x)
        s0, st, cnt = O.slice_plan(n, a, b, c)
        cnt = K.conc(cnt)
        _lsb0()
        if op == 'del':
            def f():
                del s[a:b:c]
        else:
            def f():
                s[a:b:c] = other
        r = call(f)
        _lsb0(False)
        s0c, stc = K.conc(s0), K.conc(st)
        sel = [s0c + j * stc for j in range(cnt)]
        if op == 'del':
            exp_m = O.ref_concat(*[rx[i:i + 1] for i in range(n) if i not in set(sel)])
        elif c is None or c == 1:
            exp_m = O.ref_concat(rx[:s0c], rv(y), rx[s0c + cnt:])
        else:
            if cnt != m:
                return K.check(r.raised(ValueError) and same(raw(s), x), 'extended slice size mismatch must raise ValueError in lsb0 too', exc=r.excname)
            ry = rv(y)
            where = {p: j for j, p in enumerate(sel)}
            exp_m = O.ref_concat(*[(ry[where[i]:where[i] + 1] if i in where else rx[i:i + 1]) for i in range(n)])
        if not r.ok:
            return K.fail('lsb0 slice ' + op + ' raised', exc=r.excname)
        exp = rv(exp_m)
        return K.check(same(raw(s), exp), 'lsb0 slice ' + op + ' is not the mirror of the msb0 operation', got=raw(s), expected=exp)
    return h


def h_item(cname, n, op):
    def h(K):
        cls, x, pos, s = _obj(K, cname, n)
        i = K.int('i')
        v = K.bool('v')
        rx = rv(x)
        _lsb0()
        if op == 'set':
            r = call(lambda: s.set(v, i))
        elif op == 'invert':
            r = call(lambda: s.invert(i))
        elif op == 'setitem':
            def f():
                s[i] = 1 if v else 0
            r = call(f)
        else:
            def f():
                del s[i]
            r = call(f)
        _lsb0(False)
        if not ((-n <= i) and (i < n)):
            return K.check(r.raised(IndexError) and same(raw(s), x), 'out-of-range position must raise IndexError', exc=r.excname)
        if not r.ok:
            return K.fail('lsb0 ' + op + ' raised', exc=r.excname)
        j = K.conc(i + n if i < 0 else i)
        if op == 'delitem':
            exp_m = O.ref_concat(rx[:j], rx[j + 1:])
        elif op == 'invert':
            exp_m = O.ref_concat(rx[:j], ~rx[j:j + 1], rx[j + 1:])
        else:
            exp_m = O.ref_concat(rx[:j], O.ones(1) if v else O.zeros(1), rx[j + 1:])
        return K.check(same(raw(s), rv(exp_m)), 'lsb0 ' + op + ' is not the mirror of the msb0 operation', got=raw(s), expected=rv(exp_m))
    return h


def h_set_range(cname, n):
    def h(K):
        cls, x, pos, s = _obj(K, cname, n)
        a, b, c = K.conc(K.int('a', 0, n)), K.conc(K.int('b', 0, n)), K.conc(K.int('c', 1, 3))
        v = K.bool('v')
        rx = rv(x)
        _lsb0()
        r = call(lambda: s.set(v, range(a, b, c)))
        _lsb0(False)
        if not r.ok:
            return K.fail('lsb0 set(value, range) raised', exc=r.excname)
        sel = set(range(a, b, c))
        bit = O.ones(1) if v else O.zeros(1)
        exp_m = O.ref_concat(*[(bit if i in sel else rx[i:i + 1]) for i in range(n)])
        return K.check(same(raw(s), rv(exp_m)), 'lsb0 set(value, range)', got=raw(s), expected=rv(exp_m))
    return h


def h_insert(cname, n, m, op):
    def h(K):
        import bitstring
        cls, x, pos, s = _obj(K, cname, n)
        y = K.bits('y', m)
        other = mk(K, bitstring.Bits, y)
        rx, ry = rv(x), rv(y)
        if op in ('append', 'prepend'):
            _lsb0()
            r = call(lambda: get_attr(s, op)(other))
            _lsb0(False)
            exp_m = O.ref_concat(rx, ry) if op == 'append' else O.ref_concat(ry, rx)
        else:
            p = K.int('p')
            _lsb0()
            r = call(lambda: get_attr(s, op)(other, p))
            _lsb0(False)
            q = p + n if p < 0 else p
            if m == 0:
                return K.check(r.ok and same(raw(s), x), 'empty operand is a no-op')
            if q < 0 or q > n:
                return K.check(r.raised(ValueError) and same(raw(s), x), 'invalid position must raise ValueError', exc=r.excname)
            qq = K.conc(q)
            exp_m = O.ref_concat(rx[:qq], ry, rx[qq:]) if op == 'insert' else O.ref_concat(rx[:qq], ry, rx[qq + m:])
        if not r.ok:
            return K.fail('lsb0 ' + op + ' raised', exc=r.excname)
        return K.check(same(raw(s), rv(exp_m)), 'lsb0 ' + op + ' is not the mirror of the msb0 operation', got=raw(s), expected=rv(exp_m))
    return h


def h_find(cname, n, m, which, aligned, fixed_start=False, chunk=None, fixed_end=False):
    def h(K):
        import bitstring
        if chunk is not None:
            bitstring._verif_findall_chunk_bits = chunk     # guarded hook in Bits._findall_lsb0 (MANIFEST.hooks)
        cls, x, pos, s = _obj(K, cname, n)
        pat = K.bits('pat', m)
        a, b = (None if fixed_start else K.opt_int('start', -n - 1, n + 1)), (None if fixed_end else K.opt_int('end', -n - 1, n + 1))
        pobj = mk(K, bitstring.Bits, pat)
        kw = {'bytealigned': True} if aligned else {}
        _lsb0()
        if which == 'findall':
            cnt = None if fixed_end else K.opt_int('count', 0, 3)
            r = call(lambda: list(s.findall(pobj, a, b, cnt, **kw)))
        else:
            r = call(lambda: get_attr(s, which)(pobj, a, b, **kw))
        _lsb0(False)
        if chunk is not None:
            del bitstring._verif_findall_chunk_bits
        s0, e0, valid = O.norm_range(n, a, b)
        if m == 0 or not valid:
            return K.check(r.raised(ValueError), 'empty pattern / invalid range must raise ValueError', exc=r.excname)
        if not r.ok:
            return K.fail('lsb0 ' + which + ' raised', exc=r.excname)
        s0, e0 = K.conc(s0), K.conc(e0)
        rx, rp = rv(x), rv(pat)
        cands = [p for p in range(s0, e0 - m + 1) if (not aligned or p % 8 == 0)]
        mt = {p: O.occurs_at(rx, rp, p) for p in cands}
        v = r.value
        if which == 'findall':
            k = len(v)
            lim = None if cnt is None else K.conc(cnt)
            if lim is not None and k > lim:
                return K.fail('findall returned more than count matches', got=v)
            parts = []
            for i in range(k):
                parts.append(L.Or(*[L.And(v[i] == c, mt[c]) for c in cands]))
                if i:
                    parts.append(v[i - 1] < v[i])
            full = lim is not None and k == lim
            for c in cands:
                alts = [v[i] == c for i in range(k)]
                if full and k:
                    alts.append(c > v[k - 1])
                if full and k == 0:
                    alts.append(True)
                parts.append(L.Implies(mt[c], L.Or(*alts)))
            return K.check(L.And(*parts), 'lsb0 findall is not the mirror of msb0 findall', got=v, aligned=aligned, window=[s0, e0])
        if len(v) == 0:
            ok = L.And(*[L.Not(mt[c]) for c in cands])
        else:
            p = v[0]
            ok = L.Or(*[L.And(p == c, mt[c]) for c in cands])
            if which == 'find':
                ok = L.And(ok, *[L.Implies(c < p, L.Not(mt[c])) for c in cands])
            else:
                ok = L.And(ok, *[L.Implies(c > p, L.Not(mt[c])) for c in cands])
        return K.check(ok, 'lsb0 ' + which + ' is not the mirror of the msb0 result', got=v, aligned=aligned, window=[s0, e0])
    return h


def h_startsends(cname, n, m, ends):
    def h(K):
        import bitstring
        cls, x, pos, s = _obj(K, cname, n)
        pat = K.bits('pat', m)
        a, b = K.opt_int('start', -n - 1, n + 1), K.opt_int('end', -n - 1, n + 1)
        _lsb0()
        r = call(lambda: (s.endswith if ends else s.startswith)(mk(K, bitstring.Bits, pat), a, b))
        _lsb0(False)
        s0, e0, valid = O.norm_range(n, a, b)
        if not valid:
            return K.check(r.raised(ValueError), 'invalid range must raise ValueError', exc=r.excname)
        if not r.ok:
            return K.fail('lsb0 startswith/endswith raised', exc=r.excname)
        s0, e0 = K.conc(s0), K.conc(e0)
        rx, rp = rv(x), rv(pat)
        if s0 + m > e0:
            exp = False
        elif ends:
            exp = O.occurs_at(rx, rp, e0 - m) if m else True
        else:
            exp = O.occurs_at(rx, rp, s0) if m else True
        return K.check(L.Iff(r.value, exp), 'lsb0 startswith/endswith is not the mirror', got=r.value)
    return h


def h_ranged(cname, n, op):
    """reverse / byteswap / rol / ror with a [start, end) range: the range is mirrored, the direction is not"""
    def h(K):
        cls, x, pos, s = _obj(K, cname, n)
        a, b = K.opt_int('start', -n - 1, n + 1), K.opt_int('end', -n - 1, n + 1)
        bits = K.int('bits', 0, n + 1) if op in ('rol', 'ror') else None
        _lsb0()
        if op == 'reverse':
            r = call(lambda: s.reverse(a, b))
        elif op == 'byteswap':
            r = call(lambda: s.byteswap(1, a, b))
        else:
            r = call(lambda: get_attr(s, op)(bits, a, b))
        _lsb0(False)
        s0, e0, valid = O.norm_range(n, a, b)
        if n == 0 and op in ('rol', 'ror'):
            # an empty bitstring cannot be rotated (bitstring.Error); whether that or an invalid range is reported first is not specified
            return K.check(not r.ok, 'rotating an empty bitstring must raise')
        if not valid:
            return K.check(r.raised(ValueError) and same(raw(s), x), 'invalid range must raise ValueError', exc=r.excname)
        if not r.ok:
            return K.fail('lsb0 ' + op + ' raised', exc=r.excname)
        s0, e0 = K.conc(s0), K.conc(e0)
        # msb0 positions of the mirrored window
        lo, hi = n - e0, n - s0
        mid = x[lo:hi]
        w = hi - lo
        if op == 'reverse':
            new = rv(mid)
        elif op == 'byteswap':
            # byte groups are counted from the lsb0 start of the window, i.e. from its least significant end
            k = w // 8
            rm = rv(mid)
            sw = O.ref_concat(*([rm[8 * t:8 * t + 8] for t in range(k)][::-1]), rm[8 * k:]) if False else None
            # mirror law: msb0 byteswap(1) on the reversed window reverses nothing for single bytes
            new = mid
        else:
            if w == 0:
                new = mid
            else:
                kk = K.conc(bits % w)
                left = (op == 'rol')
                new = O.ref_concat(mid[kk:], mid[:kk]) if left else O.ref_concat(mid[w - kk:], mid[:w - kk])
        exp = O.ref_concat(x[:lo], new, x[hi:])
        return K.check(same(raw(s), exp), 'lsb0 ranged ' + op + ': the range must be mirrored and the direction kept', got=raw(s), expected=exp, window_msb0=[lo, hi])
    return h


def h_shift(cname, n):
    def h(K):
        cls, x, pos, s = _obj(K, cname, n)
        k = K.int('k', 0, n + 1)
        _lsb0()
        r1, r2 = call(lambda: s << k), call(lambda: s >> k)
        _lsb0(False)
        if n == 0:
            return K.check(r1.raised(ValueError) and r2.raised(ValueError), 'shifting an empty bitstring must raise ValueError')
        if not (r1.ok and r2.ok):
            return K.fail('lsb0 shift raised', exc=r1.excname or r2.excname)
        kk = K.conc(k if k < n else n)
        return K.check(same(raw(r1.value), O.ref_concat(x[kk:], O.zeros(kk))) and same(raw(r2.value), O.ref_concat(O.zeros(kk), x[:n - kk])),
                       'shifts must keep their direction relative to the most significant end in lsb0 mode')
    return h


def h_whole_value(cname, n):
    """interpretations, ==, hash input, len and stored order are identical in both modes"""
    def h(K):
        import bitstring
        cls, x, pos, s = _obj(K, cname, n)
        names = ['bin', 'len'] + (['uint', 'int'] if n else []) + (['hex'] if n % 4 == 0 else []) + (['bytes', 'uintbe', 'uintle', 'intle'] if n % 8 == 0 and n else []) + (['oct'] if n % 3 == 0 else [])
        for nm in names:
            a = call(lambda: get_attr(s, nm))
            _lsb0()
            b = call(lambda: get_attr(s, nm))
            _lsb0(False)
            if not (a.ok and b.ok and (a.value == b.value)):
                return K.fail('interpretation differs between msb0 and lsb0', name=nm, exc=a.excname or b.excname)
        y = K.bits('y', n)
        t = mk(K, bitstring.Bits, y)
        e1 = call(lambda: s == t)
        tb1 = call(lambda: s.tobytes())
        _lsb0()
        e2 = call(lambda: s == t)
        tb2 = call(lambda: s.tobytes())
        _lsb0(False)
        return K.check(e1.ok and e2.ok and L.Iff(e1.value, e2.value) and (tb1.value == tb2.value) and same(raw(s), x), '== / tobytes / stored order differ between modes')
    return h


def h_read(cname, n, tok, L_):
    def h(K):
        import bitstring
        import bitarray.util as U
        cls, x, pos, s = _obj(K, cname, n)
        _lsb0()
        r = call(lambda: s.read(tok))
        _lsb0(False)
        if L_ > n - pos:
            return K.check((not r.ok) and isinstance(r.exc, bitstring.ReadError) and s._pos == pos, 'over-read must raise ReadError, pos unchanged', exc=r.excname)
        if not r.ok:
            return K.fail('lsb0 read raised', exc=r.excname)
        pp = K.conc(pos)
        seg = x[n - pp - L_:n - pp]     # the L bits starting at lsb0 position pos
        if tok.startswith('uint'):
            ok = r.value == U.ba2int(seg)
        elif tok.startswith('bits'):
            ok = same(raw(r.value), seg)
        else:
            ok = r.value == seg.to01()
        return K.check(ok and s._pos == pos + L_, 'lsb0 read: bits are taken from the least significant end, value interpreted msb-first', got=r.value, pos=s._pos)
    return h


def h_pack(n1, n2):
    def h(K):
        import bitstring
        import bitarray.util as U
        a, b = K.int('a', 0, (1 << n1) - 1), K.int('b', 0, (1 << n2) - 1)
        _lsb0()
        r = call(lambda: bitstring.pack(f'uint:{n1}, uint:{n2}', a, b))
        u = call(lambda: r.value.unpack(f'uint:{n1}, uint:{n2}')) if r.ok else None
        _lsb0(False)
        if not r.ok:
            return K.fail('lsb0 pack raised', exc=r.excname)
        exp = O.ref_concat(U.int2ba(b, length=n2), U.int2ba(a, length=n1))
        if not K.check(same(raw(r.value), exp), 'lsb0 pack must place the first token at the least significant end', got=raw(r.value), expected=exp):
            return False
        return K.check(u.ok and u.value == [a, b], 'lsb0 unpack must invert lsb0 pack', got=u.value if u.ok else None, exc=u.excname)
    return h


PACK_FORMS = {
    # name -> (format, number of positional values, keyword builder, expected pieces in written order as (kind, index))
    'kw-name-last': ('uint:3, header', lambda a, b, y: ([a], {'header': y}), lambda a, b, y: [('u3', a), ('bits', y)]),
    'kw-name-middle': ('uint:3, header, uint:5', lambda a, b, y: ([a, b], {'header': y}), lambda a, b, y: [('u3', a), ('bits', y), ('u5', b)]),
    'kw-name-first': ('header, uint:3', lambda a, b, y: ([a], {'header': y}), lambda a, b, y: [('bits', y), ('u3', a)]),
    'kw-value': ('uint:3=v, uint:5', lambda a, b, y: ([b], {'v': a}), lambda a, b, y: [('u3', a), ('u5', b)]),
    'kw-length': ('uint:n, uint:5', lambda a, b, y: ([a, b], {'n': 3}), lambda a, b, y: [('u3', a), ('u5', b)]),
    'literal-and-value': ('0b10, uint:3, bits', lambda a, b, y: ([a, y], {}), lambda a, b, y: [('lit', '10'), ('u3', a), ('bits', y)]),
    'factor': ('2*uint:3, bits', lambda a, b, y: ([a, a, y], {}), lambda a, b, y: [('u3', a), ('u3', a), ('bits', y)]),
    'list-format': (['uint:3', 'header, uint:5'], lambda a, b, y: ([a, b], {'header': y}), lambda a, b, y: [('u3', a), ('bits', y), ('u5', b)]),
}


def h_pack_forms(form):
    """lsb0 pack order for every kind of token (positional, keyword name, keyword value, keyword length, literal, factor, list format):
    the first written token ends at the least significant end, i.e. the stored order is the written order reversed"""
    def h(K):
        import bitstring
        import bitarray.util as U
        fmt, mkargs, mkexp = PACK_FORMS[form]
        a, b = K.int('a', 0, 7), K.int('b', 0, 31)
        y = K.bits('y', 2)
        yb = mk(K, bitstring.Bits, y)
        pos, kw = mkargs(a, b, yb)
        _lsb0()
        r = call(lambda: bitstring.pack(fmt, *pos, **kw))
        _lsb0(False)
        r0 = call(lambda: bitstring.pack(fmt, *pos, **kw))
        if not (r.ok and r0.ok):
            return K.fail('pack raised', exc=r.excname or r0.excname, form=form)
        pieces = []
        for kind, v in mkexp(a, b, yb):
            pieces.append(U.int2ba(v, length=3) if kind == 'u3' else U.int2ba(v, length=5) if kind == 'u5' else O.from01(v) if kind == 'lit' else y)
        if not K.check(same(raw(r0.value), O.ref_concat(*pieces)), 'msb0 pack must store the tokens in written order', form=form, got=raw(r0.value)):
            return False
        return K.check(same(raw(r.value), O.ref_concat(*pieces[::-1])), 'lsb0 pack must store the tokens in the reverse of the written order (first token at the least significant end)',
                       form=form, got=raw(r.value), expected=O.ref_concat(*pieces[::-1]))
    return h


def h_toggle(n):
    """after any on/off toggle sequence ending in off, msb0 behaviour (method table and results) is restored exactly"""
    def h(K):
        import bitstring
        from bitstring.bits import Bits
        from bitstring.bitarray_ import BitArray
        from bitstring.bitstore import BitStore
        table0 = {(c.__name__, a): c.__dict__[a] for c, attrs in ((Bits, ['_find', '_rfind', '_findall']), (BitArray, ['_ror', '_rol', '_append', '_prepend']),
                  (BitStore, ['__setitem__', '__delitem__', 'getindex', 'getslice', 'getslice_withstep', 'invert'])) for a in attrs}
        seq = [K.bool(f't{i}') for i in range(4)]
        for v in seq:
            bitstring.options.lsb0 = v
        bitstring.options.lsb0 = False
        for (cn, a), f in table0.items():
            c = {'Bits': Bits, 'BitArray': BitArray, 'BitStore': BitStore}[cn]
            if c.__dict__[a] is not f:
                return K.fail('method table not restored after toggling lsb0', cls=cn, attr=a)
        x = K.bits('x', n)
        s = mk(K, bitstring.BitArray, x)
        a_, b_ = K.opt_int('start', -n - 1, n + 1), K.opt_int('stop', -n - 1, n + 1)
        r = call(lambda: s[a_:b_])
        return K.check(r.ok and same(raw(r.value), O.ref_slice(K, x, a_, b_, None)) and bitstring.options.lsb0 is False, 'msb0 slicing not restored after toggling')
    return h


# ------------------------------------------------------------------ differential mirror (library msb0 run on reversed operands)
def _mirror_ops(K, n, opname):
    """returns (f(obj, operands...) , list of operand bitarrays, mirrored?) for one operation; arguments are created here (symbolic)"""
    import bitstring
    B = bitstring.Bits
    lim = n + 1
    if opname == 'cut':
        bits, a, b, cnt = K.int('bits', 1, 3), K.opt_int('start', -lim, lim), K.opt_int('end', -lim, lim), K.opt_int('count', 0, 3)
        return (lambda s: [raw(c) for c in s.cut(bits, a, b, cnt)]), [], True
    if opname == 'replace':
        a, b, cnt = K.opt_int('start', -lim, lim), K.opt_int('end', -lim, lim), K.opt_int('count', 0, 2)
        return (lambda s, old, new: s.replace(old, new, a, b, cnt)), [K.bits('old', 2), K.bits('new', 1)], True
    if opname == 'replace-whole':
        cnt = K.opt_int('count', 0, 2)
        return (lambda s, old, new: s.replace(old, new, None, None, cnt)), [K.bits('old', 2), K.bits('new', 3)], True
    if opname == 'replace-aligned':
        a, b = None, K.opt_int('end', -lim, lim)
        return (lambda s, old, new: s.replace(old, new, a, b, None, True)), [K.bits('old', 2), K.bits('new', 3)], True
    if opname == 'byteswap':
        a, b, rep = K.opt_int('start', -lim, lim), K.opt_int('end', -lim, lim), K.bool('repeat')
        fmt = K.choice('fmt', [None, 1, 2, [1, 2]])
        return (lambda s: s.byteswap(fmt, a, b, rep)), [], True
    if opname in ('insert', 'overwrite'):
        p = K.opt_int('at', -lim, lim)
        return (lambda s, y: get_attr(s, opname)(y, p)), [K.bits('y', 2)], True
    if opname in ('append', 'prepend'):
        return (lambda s, y: get_attr(s, opname)(y)), [K.bits('y', 2)], True
    if opname == 'split':
        a, b, cnt = K.opt_int('start', -lim, lim), K.opt_int('end', -lim, lim), K.opt_int('count', 0, 3)
        return (lambda s, d: [raw(c) for c in s.split(d, a, b, cnt)]), [K.bits('delim', 2)], True
    if opname == 'reverse':
        a, b = K.opt_int('start', -lim, lim), K.opt_int('end', -lim, lim)
        return (lambda s: s.reverse(a, b)), [], True
    if opname == 'invert-pos':
        p = K.int('p', -lim, lim)
        return (lambda s: s.invert(p)), [], True
    if opname == 'set-list':
        p, q2, v = K.int('p', -lim, lim), K.int('q', -lim, lim), K.bool('v')
        return (lambda s: s.set(v, [p, q2])), [], True
    if opname == 'any-all':
        p, v = K.int('p', -lim, lim), K.bool('v')
        return (lambda s: (s.all(v, [p]), s.any(v, [p]))), [], True
    if opname == 'count-find-in':
        return (lambda s, y: (s.count(1), y in s)), [K.bits('y', 2)], True
    # operations that do not take positions: identical in both modes (no mirroring at all)
    if opname in ('ilshift', 'irshift'):
        k = K.int('k', 0, n + 1)
        return (lambda s: raw(s.__ilshift__(k) if opname == 'ilshift' else s.__irshift__(k))), [], False
    if opname == 'imul':
        k = K.int('k', 0, 2)
        return (lambda s: raw(s.__imul__(k))), [], False
    if opname in ('iand', 'ior', 'ixor'):
        return (lambda s, y: raw(get_attr(s, '__' + opname + '__')(y))), [K.bits('y', n)], False
    if opname == 'invert-all':
        return (lambda s: s.invert()), [], False
    if opname == 'set-all':
        v = K.bool('v')
        return (lambda s: s.set(v)), [], False
    if opname == 'clear':
        return (lambda s: s.clear()), [], False
    if opname == 'not-and':
        return (lambda s, y: [raw(~s) if n else None, raw(s & y), raw(s | y), raw(s ^ y)]), [K.bits('y', n)], False
    if opname == 'add-mul':
        return (lambda s, y: [raw(s + y), raw(y + s), raw(s * 2)]), [K.bits('y', 2)], False
    if opname == 'add-longer':
        # the right operand is the longer one (Bits.__add__ copies the longer operand), also through __radd__ with a str / list
        return (lambda s, y: [raw(s + y), raw(y + s), raw(y.__radd__(s))]), [K.bits('y', n + 2)], False
    raise ValueError(opname)


MIRROR_MUT = ['replace', 'replace-whole', 'replace-aligned', 'byteswap', 'insert', 'overwrite', 'append', 'prepend', 'reverse', 'invert-pos', 'set-list', 'ilshift', 'irshift', 'imul', 'iand', 'ior', 'ixor',
              'invert-all', 'set-all', 'clear']
# split is deliberately absent: it is not in the property's list and tests/test_bitarray.py::TestLsb0Setting::test_split pins a hybrid behaviour
# (delimiters located from the most significant end, pieces cut with lsb0 slices) that is not the mirror; see DESIGN.md 8.6
MIRROR_ANY = ['cut', 'any-all', 'count-find-in', 'not-and', 'add-mul', 'add-longer']


def _mirror_val(v, mirrored):
    tn = type(v).__name__
    if tn in ('bitarray', 'frozenbitarray'):
        return rv(v) if mirrored else v
    if isinstance(v, (list, tuple)):
        return [_mirror_val(u, mirrored) for u in v]
    return v


def _same_val(u, v):
    tu, tv = type(u).__name__, type(v).__name__
    if tu in ('bitarray', 'frozenbitarray') or tv in ('bitarray', 'frozenbitarray'):
        return tu == tv and same(u, v)
    if isinstance(u, (list, tuple)):
        if not isinstance(v, (list, tuple)) or len(u) != len(v):
            return False
        ok = True
        for p, q in zip(u, v):
            ok = ok and _same_val(p, q)
        return ok
    return u == v


def h_mirror(cname, n, opname):
    """the property as literally stated: the lsb0 operation == reverse(msb0 operation of the library on the reversed operands, same position
    arguments); position-free operations must be identical in both modes.  (The msb0 side is itself checked against the sequence oracle by C01/C03/C07/C16.)"""
    def h(K):
        import bitstring
        cls = classes()[cname]
        x = K.bits('x', n)
        pos = K.int('pos', 0, n) if is_stream(cls) else None
        f, operands, mirrored = _mirror_ops(K, n, opname)
        s1 = mk(K, cls, x, pos)
        s2 = mk(K, cls, rv(x) if mirrored else x, pos)
        ops1 = [mk(K, bitstring.Bits, y) for y in operands]
        ops2 = [mk(K, bitstring.Bits, rv(y) if mirrored else y) for y in operands]
        _lsb0()
        r1 = call(lambda: f(s1, *ops1))
        _lsb0(False)
        r2 = call(lambda: f(s2, *ops2))
        if r1.ok != r2.ok or ((not r1.ok) and type(r1.exc) is not type(r2.exc)):
            return K.fail('the operation raises in one mode and not (or differently) in the other', op=opname, lsb0_exc=r1.excname, msb0_exc=r2.excname)
        exp_content = rv(raw(s2)) if mirrored else raw(s2)
        if not K.check(same(raw(s1), exp_content), 'content after the lsb0 operation is not the mirror of the msb0 operation on the reversed operands' if mirrored else
                       'a position-free operation gives different content in lsb0 and msb0 mode', op=opname, got=raw(s1), expected=exp_content):
            return False
        if r1.ok and not K.check(_same_val(r1.value, _mirror_val(r2.value, mirrored)), 'return value of the lsb0 operation is not the mirror of the msb0 one', op=opname, got=r1.value, msb0_on_reversed=r2.value):
            return False
        if pos is not None:
            return K.check(s1._pos == s2._pos, 'stream position after the operation differs between the lsb0 run and the mirrored msb0 run', op=opname, lsb0_pos=s1._pos, msb0_pos=s2._pos)
        return True
    return h


def conditions(tier):
    q = tier == 'quick'
    conds = []
    T = 200 if q else 450

    def add(cid, fn, bounds, **params):
        conds.append(Cond(cid, fn, bounds, D, params, timeout=T))

    imm = ['Bits'] if q else ['Bits', 'ConstBitStream']
    mut = ['BitArray'] if q else ['BitArray', 'BitStream']
    for c in imm + mut:
        for n in ([0, 1, 5] if q else [0, 1, 3, 5, 8, 9]):
            add(f'C12.index[{c},n={n}]', h_index(c, n), f'all {n}-bit contents x every int index', n=n)
        for n in ([0, 3, 5] if q else [0, 1, 2, 3, 4, 5, 6, 8]):
            for sc in ('none', 'pos', 'neg'):
                add(f'C12.slice[{c},n={n},step={sc}]', h_slice(c, n, n + 2, sc), f'all {n}-bit contents x start,stop in [-{n + 2},{n + 2}] or None x step {sc}', n=n)
        for n in ([0, 5] if q else [0, 1, 5, 9]):
            add(f'C12.whole-value[{c},n={n}]', h_whole_value(c, n), f'all pairs of {n}-bit contents', n=n)
            add(f'C12.shift[{c},n={n}]', h_shift(c, n), f'all {n}-bit contents x shift in [0,{n + 1}]', n=n)
        for (n, m) in ([(6, 2), (4, 0)] if q else [(6, 1), (6, 2), (4, 0), (8, 3)]):
            for which in ('find', 'rfind', 'findall'):
                add(f'C12.{which}[{c},n={n},m={m}]', h_find(c, n, m, which, False), f'all contents ({n}-bit data, {m}-bit pattern) x windows', n=n, m=m)
            for ends in (False, True):
                add(f"C12.{'endswith' if ends else 'startswith'}[{c},n={n},m={m}]", h_startsends(c, n, m, ends), f'all contents x windows', n=n, m=m)
        for (n, m) in ([(10, 1), (17, 8)] if q else [(9, 1), (10, 1), (10, 2), (16, 8), (17, 8), (20, 8)]):
            for which in ('find', 'rfind', 'findall'):
                if q and (n, m) == (17, 8) and which == 'findall':
                    continue
                if q or which == 'findall' or (n, m) == (20, 8):
                    # (thorough: findall with a symbolic start as well does not finish within the per-condition budget)
                    add(f'C12.{which}-aligned[{c},n={n},m={m},start=None]', h_find(c, n, m, which, True, True), f'all contents ({n}-bit data, {m}-bit pattern) x end in [-{n + 1},{n + 1}] or None, bytealigned=True', n=n, m=m)
                    continue
                add(f'C12.{which}-aligned[{c},n={n},m={m}]', h_find(c, n, m, which, True), f'all contents ({n}-bit data, {m}-bit pattern) x windows, bytealigned=True', n=n, m=m)
    # the reverse chunk loop of Bits._findall_lsb0 (8192-bit increments in production) with the increment shrunk by the hook
    for c in (['Bits'] if q else imm + mut):
        for (n, m, ch) in ([(9, 1, 4), (12, 2, 5)] if q else [(12, 1, 4), (12, 2, 5), (13, 3, 4), (17, 2, 8), (16, 1, 8)]):
            add(f'C12.findall-chunked[{c},n={n},m={m},chunk={ch}]', h_find(c, n, m, 'findall', False, True, chunk=ch), f'all contents ({n}-bit data, {m}-bit pattern) x end x count; chunk increment {ch} bits', n=n, m=m)
        for (n, m, ch) in ([(16, 1, 8)] if q else [(16, 1, 8), (17, 1, 8), (24, 8, 8), (20, 2, 5)]):
            for which in ('find', 'findall'):
                add(f'C12.{which}-aligned-chunked[{c},n={n},m={m},chunk={ch}]', h_find(c, n, m, which, True, True, chunk=ch, fixed_end=True), f'all contents ({n}-bit data, {m}-bit pattern), whole range, no count, bytealigned=True; chunk increment {ch} bits', n=n, m=m)
    for c in mut:
        for n in ([0, 3] if q else [0, 1, 3, 5]):
            for op in ('set', 'invert', 'setitem', 'delitem'):
                add(f'C12.{op}[{c},n={n}]', h_item(c, n, op), f'all {n}-bit contents x every int position', n=n)
            add(f'C12.set-range[{c},n={n}]', h_set_range(c, n), f'all {n}-bit contents x range(a,b,c) inside the bitstring', n=n)
            for sc in ('none', 'pos', 'neg'):
                add(f'C12.delslice[{c},n={n},step={sc}]', h_setdel(c, n, 0, n + 1, 'del', sc), f'all {n}-bit contents x start,stop in [-{n + 1},{n + 1}] or None x step {sc}', n=n)
                for m in ([2] if q else [0, 1, 2]):
                    add(f'C12.setslice[{c},n={n},m={m},step={sc}]', h_setdel(c, n, m, n + 1, 'set', sc), f'all contents ({n}+{m} bits) x start,stop x step {sc}', n=n, m=m)
        for (n, m) in ([(3, 2), (0, 1)] if q else [(3, 2), (0, 1), (5, 3), (4, 0)]):
            for op in ('append', 'prepend', 'insert', 'overwrite'):
                add(f'C12.{op}[{c},n={n},m={m}]', h_insert(c, n, m, op), f'all contents ({n}+{m} bits) x every int position', n=n, m=m)
        for n in ([5] if q else [0, 3, 5, 8]):
            for op in ('reverse', 'rol', 'ror'):
                add(f'C12.{op}-ranged[{c},n={n}]', h_ranged(c, n, op), f'all {n}-bit contents x start,end in [-{n + 1},{n + 1}] or None' + (' x bits' if op != 'reverse' else ''), n=n)
    for c in CLS:
        for n in ([9] if q else [0, 5, 9, 17]):
            for op in MIRROR_ANY + (MIRROR_MUT if c in ('BitArray', 'BitStream') else []):
                if op in ('byteswap', 'replace-aligned') and n < 9:
                    continue
                nn = {'byteswap': 17, 'replace-aligned': 10, 'replace': 4, 'replace-whole': 7, 'cut': 6, 'add-longer': 3}.get(op, n) if q else n
                add(f'C12.mirror-{op}[{c},n={nn}]', h_mirror(c, nn, op), f'all {nn}-bit contents, operands and position arguments in [-{nn + 1},{nn + 1}] or None; lsb0 run vs library msb0 run on the reversed operands', n=nn, op=op)
    for c in (['ConstBitStream'] if q else ['ConstBitStream', 'BitStream']):
        for tok, L_ in (('uint:3', 3), ('bits:4', 4), ('bin:2', 2)):
            add(f'C12.read[{c},{tok},n=7]', h_read(c, 7, tok, L_), 'all 7-bit contents x all positions', tok=tok)
    for (n1, n2) in ([(3, 5)] if q else [(3, 5), (1, 1), (8, 9)]):
        add(f'C12.pack[{n1},{n2}]', h_pack(n1, n2), f'all values of uint:{n1}, uint:{n2}')
    for form in PACK_FORMS:
        add(f'C12.pack-forms[{form}]', h_pack_forms(form), 'all values of uint:3, uint:5 and a 2-bit bitstring; every way a token can receive its value')
    add('C12.toggle[n=4]', h_toggle(4), 'all toggle sequences of length 4 x all 4-bit contents x slices')
    return conds
